"""Self-test corpus for C20 (robots.txt obedience).  `old` texts are written against the tree with the three
C20 repairs applied (planned-fixes 0009, 0010, 0011); entries whose text is absent are reported `skipped`."""
ROBOTS = 'wpull/protocol/http/robots.py'
POOL = 'wpull/robotstxt.py'
RULE = 'wpull/processor/rule.py'
WEB = 'wpull/processor/web.py'
HTML = 'wpull/scraper/html.py'
DL = 'wpull/application/tasks/download.py'


def B(i, rel, old, new, expect=None, more=()):
    return {'id': 'C20/' + i, 'prop': 'C20', 'kind': 'break', 'edits': [(rel, old, new)] + list(more), 'expect': expect}


def N(i, rel, old, new, more=(), all_=False):
    e = {'id': 'C20/benign-' + i, 'prop': 'C20', 'kind': 'benign', 'edits': [(rel, old, new)] + list(more)}
    if all_:
        e['all'] = True
    return e


ENTRIES = [
    # ------------------------------------------------------------------ D1 pool key
    B('key-without-port', POOL, "return url_info.scheme, url_info.hostname, url_info.port",
      "return url_info.scheme, url_info.hostname", 'C20-D1'),
    B('key-without-scheme', POOL, "return url_info.scheme, url_info.hostname, url_info.port",
      "return url_info.hostname, url_info.port", 'C20-D1'),
    B('key-with-path', POOL, "return url_info.scheme, url_info.hostname, url_info.port",
      "return url_info.scheme, url_info.hostname, url_info.port, url_info.path", 'C20-D1'),
    B('has-parser-by-hostname', POOL,
      "        '''Return whether a parser has been created for the URL.'''\n        key = self.url_info_key(url_info)\n",
      "        '''Return whether a parser has been created for the URL.'''\n        key = url_info.hostname\n", 'C20-D1'),
    B('load-parses-nothing', POOL, "parser.parse(text)", "parser.parse('')", 'C20-D1'),
    B('is-allowed-args-swapped', POOL, "parser.is_allowed(user_agent, url_info.url)", "parser.is_allowed(url_info.url, user_agent)", 'C20-D1'),
    B('is-allowed-negated', POOL, "return parser.is_allowed(user_agent, url_info.url)", "return not parser.is_allowed(user_agent, url_info.url)", 'C20-D1'),
    B('pool-bounded-by-clear', POOL, "        self._parsers[key] = parser\n",
      "        if len(self._parsers) > 100:\n            self._parsers.clear()\n\n        self._parsers[key] = parser\n", 'C20-D1'),
    # ------------------------------------------------------------------ D2 fetch on miss, status table
    B('miss-answers-true', ROBOTS, "        else:\n            raise NotInPoolError()\n", "        else:\n            return True\n", 'C20-D2'),
    B('gate-inverted', ROBOTS, "if self._robots_txt_pool.has_parser(url_info):", "if not self._robots_txt_pool.has_parser(url_info):", 'C20-D2'),
    B('user-agent-dropped', ROBOTS, "user_agent = request.fields.get('User-agent', '')", "user_agent = ''", 'C20-D2'),
    B('miss-accepts-blank-without-fetch', ROBOTS, "        yield from self.fetch_robots_txt(request, file=file)\n",
      "        self._accept_as_blank(request.url_info)\n", 'C20-D2'),
    B('true-after-fetch', ROBOTS,
      "        yield from self.fetch_robots_txt(request, file=file)\n\n        return self.can_fetch_pool(request)\n",
      "        yield from self.fetch_robots_txt(request, file=file)\n\n        return True\n", 'C20-D2'),
    B('fetch-on-every-call', ROBOTS,
      "        try:\n            return self.can_fetch_pool(request)\n        except NotInPoolError:\n            pass\n\n        yield from self.fetch_robots_txt(request, file=file)\n",
      "        yield from self.fetch_robots_txt(request, file=file)\n\n        try:\n            return self.can_fetch_pool(request)\n        except NotInPoolError:\n            pass\n", 'C20-D2'),
    B('not-in-pool-handler-narrowed', ROBOTS, "        except NotInPoolError:\n            pass\n", "        except KeyError:\n            pass\n", 'C20-D2'),
    B('robots-url-without-port', ROBOTS, "url_info.scheme, url_info.hostname_with_port)).url", "url_info.scheme, url_info.hostname)).url", 'C20-D2'),
    B('robots-url-always-http', ROBOTS,
      "URLInfo.parse('{0}://{1}/robots.txt'.format(\n            url_info.scheme, url_info.hostname_with_port)).url",
      "URLInfo.parse('http://{0}/robots.txt'.format(\n            url_info.hostname_with_port)).url", 'C20-D2'),
    B('status-500-off-by-one', ROBOTS, "if 500 <= status_code <= 599:", "if 500 < status_code <= 599:", 'C20-D2'),
    B('status-599-off-by-one', ROBOTS, "if 500 <= status_code <= 599:", "if 500 <= status_code < 599:", 'C20-D2'),
    B('status-5xx-allows', ROBOTS,
      "            if 500 <= status_code <= 599:\n                raise ServerError('Server returned error for robots.txt.')\n\n            if status_code == 200:",
      "            if status_code == 200:", 'C20-D2'),
    B('status-4xx-postpones', ROBOTS, "if 500 <= status_code <= 599:", "if 400 <= status_code <= 599:", 'C20-D2'),
    B('status-200-inverted', ROBOTS, "if status_code == 200:", "if status_code != 200:", 'C20-D2'),
    B('status-5xx-blank-then-raise', ROBOTS,
      "                raise ServerError('Server returned error for robots.txt.')",
      "                self._accept_as_blank(url_info)\n                raise ServerError('Server returned error for robots.txt.')", 'C20-D2'),
    B('key-from-final-response', ROBOTS, "self._read_content(response, url_info)", "self._read_content(response, response.request.url_info)", 'C20-D2'),
    B('body-not-downloaded', ROBOTS, "                        response = yield from session.start()\n                        yield from session.download(file=file)\n",
      "                        response = yield from session.start()\n", 'C20-D2'),
    B('session-run-once', ROBOTS, "                while not session.done():\n", "                if not session.done():\n", 'C20-D2'),
    B('parse-failure-leaves-pool-empty', ROBOTS,
      "                  'Ignoring.'), url_info.url))\n            self._accept_as_blank(url_info)\n",
      "                  'Ignoring.'), url_info.url))\n", 'C20-D2'),
    B('blank-under-wrong-key', ROBOTS, "self._robots_txt_pool.load_robots_txt(url_info, '')", "self._robots_txt_pool.load_robots_txt(url_info.url, '')", 'C20-D2'),
    # ------------------------------------------------------------------ D3 whole file
    B('regress-read-4096', ROBOTS, "data = response.body.read()", "data = response.body.read(4096)", 'C20-D3'),
    B('read-module-constant', ROBOTS, "data = response.body.read()", "data = response.body.read(MAX_ROBOTS_SIZE)", 'C20-D3',
      more=[(ROBOTS, "_ = gettext.gettext\n", "_ = gettext.gettext\nMAX_ROBOTS_SIZE = 500 * 1024\n")]),
    B('read-then-slice', ROBOTS, "data = response.body.read()", "data = response.body.read()[:65536]", 'C20-D3'),
    B('first-line-only', ROBOTS, "data = response.body.read()", "data = response.body.readline()", 'C20-D3'),
    B('text-not-from-body', ROBOTS, "data = response.body.read()", "data = response.reason", 'C20-D3'),
    # ------------------------------------------------------------------ D4 override, order, errors, wiring
    B('robots-false-keeps-verdict', RULE, "                verdict = False\n                reason = 'robotstxt'\n", "                reason = 'robotstxt'\n", 'C20-D4'),
    B('robots-answer-inverted', RULE, "            if not can_fetch:\n", "            if can_fetch:\n", 'C20-D4'),
    B('robots-only-when-filters-reject', RULE, "if verdict and self._robots_txt_checker:", "if not verdict and self._robots_txt_checker:", 'C20-D4'),
    B('consult-returns-not-none', RULE, "        return result\n\n    def consult_helix_fossil", "        return result is not None\n\n    def consult_helix_fossil", 'C20-D4'),
    B('consult-pool-of-other-request', RULE, "self._robots_txt_checker.can_fetch(request)", "self._robots_txt_checker.can_fetch(HTTPRequest(request.url_info.hostname))", 'C20-D4'),
    B('session-before-robots', WEB,
      "        ok = yield from self._process_robots()\n\n        if not ok:\n            return\n\n        self._processing_rule.add_extra_urls(self._item_session)\n\n        self._web_client_session = self._processor.web_client.session(\n            self._new_initial_request()\n        )\n",
      "        self._web_client_session = self._processor.web_client.session(\n            self._new_initial_request()\n        )\n\n        ok = yield from self._process_robots()\n\n        if not ok:\n            return\n\n        self._processing_rule.add_extra_urls(self._item_session)\n", 'C20-D4'),
    B('robots-result-ignored', WEB, "        ok = yield from self._process_robots()\n\n        if not ok:\n            return\n", "        yield from self._process_robots()\n", 'C20-D4'),
    B('robots-result-inverted', WEB, "        if not ok:\n            return\n", "        if ok:\n            return\n", 'C20-D4'),
    B('error-handler-returns-true', WEB, "                yield from asyncio.sleep(wait_time)\n\n            return False\n        else:", "                yield from asyncio.sleep(wait_time)\n\n            return True\n        else:", 'C20-D4'),
    B('error-handler-narrowed', WEB, "        except REMOTE_ERRORS as error:\n            _logger.error(\n                _('Fetching robots.txt",
      "        except ProtocolError as error:\n            _logger.error(\n                _('Fetching robots.txt", 'C20-D4'),
    B('handle-error-dropped', WEB,
      "                url=self._next_url_info.url, error=error\n            )\n            self._result_rule.handle_error(self._item_session, error)\n",
      "                url=self._next_url_info.url, error=error\n            )\n", 'C20-D4'),
    B('verdict-false-reports-ok', WEB, "                self._item_session.skip()\n                return False\n\n        return True\n",
      "                self._item_session.skip()\n\n        return True\n", 'C20-D4'),
    B('network-errors-mean-no-robots', ROBOTS, "                except ProtocolError:\n", "                except (ProtocolError, OSError):\n", 'C20-D4'),
    B('checker-only-when-recursive', DL, "        if session.args.robots:\n            robots_txt_pool", "        if session.args.robots and session.args.recursive:\n            robots_txt_pool", 'C20-D4'),
    B('checker-flag-inverted', DL, "        if session.args.robots:\n            robots_txt_pool", "        if not session.args.robots:\n            robots_txt_pool", 'C20-D4'),
    B('checker-not-handed-over', DL, "url_filter=url_filter, robots_txt_checker=robots_txt_checker,", "url_filter=url_filter,", 'C20-D4'),
    B('fetch-rule-forgets-checker', RULE, "self._robots_txt_checker = robots_txt_checker", "self._robots_txt_checker = None", 'C20-D4'),
    # ------------------------------------------------------------------ D5 nofollow
    B('regress-value-attribute', HTML, "'nofollow' in element.attrib.get('content', '').lower()", "'nofollow' in element.attrib.get('value', '').lower()", 'C20-D5a'),
    B('name-case-sensitive', HTML, "element.attrib.get('name', '').lower() == 'robots'", "element.attrib.get('name', '') == 'robots'", 'C20-D5a'),
    B('content-case-sensitive', HTML, "'nofollow' in element.attrib.get('content', '').lower()", "'nofollow' in element.attrib.get('content', '')", 'C20-D5a'),
    B('nofollow-exact-match', HTML, "'nofollow' in element.attrib.get('content', '').lower()", "'nofollow' == element.attrib.get('content', '').lower()", 'C20-D5a'),
    B('nofollow-negated', HTML, "'nofollow' in element.attrib.get('content', '').lower()", "'nofollow' not in element.attrib.get('content', '').lower()", 'C20-D5a'),
    N('second-line-regress-discard', HTML, "link_contexts.difference_update(frozenset(", "link_contexts.discard(frozenset("),
    N('second-line-remove-collection', HTML, "link_contexts.difference_update(frozenset(", "link_contexts.remove(frozenset("),
    N('second-line-removes-unlinked', HTML, "context for context in link_contexts if context.linked", "context for context in link_contexts if not context.linked"),
    N('second-line-removes-inline', HTML, "context for context in link_contexts if context.linked", "context for context in link_contexts if context.inline"),
    N('second-line-flag-key-typo', HTML, "if result_meta_info.get('robots_no_follow'):", "if result_meta_info.get('robots_nofollow'):"),
    N('second-line-flag-inverted', HTML, "if result_meta_info.get('robots_no_follow'):", "if not result_meta_info.get('robots_no_follow'):"),
    B('flag-never-raised', HTML, "                robots_check_needed = False\n                meta_info['robots_no_follow'] = True\n",
      "                robots_check_needed = False\n                meta_info['robots_no_follow'] = False\n", 'C20-D5b'),
    B('flag-needs-first-element', HTML, "if robots_check_needed and ElementWalker.robots_cannot_follow(element):",
      "if robots_check_needed and inject_refresh and ElementWalker.robots_cannot_follow(element):", 'C20-D5b'),
    B('flag-check-negated', HTML, "if robots_check_needed and ElementWalker.robots_cannot_follow(element):",
      "if robots_check_needed and not ElementWalker.robots_cannot_follow(element):", 'C20-D5b'),
    B('latch-off-from-start', HTML, "robots_check_needed = self._robots\n", "robots_check_needed = self._robots and self._only_relative\n", 'C20-D5b'),
    N('second-line-rebuild-into-other-name', HTML, "            link_contexts.difference_update(frozenset(\n                context for context in link_contexts if context.linked\n            ))\n",
      "            kept = link_contexts.difference(frozenset(\n                context for context in link_contexts if context.linked\n            ))\n"),
    B('scraper-without-robots-option', DL, "                robots=session.args.robots,\n", "", 'C20-D5c'),
    B('scraper-wrong-option', DL, "robots=session.args.robots,", "robots=session.args.recursive,", 'C20-D5c'),
    B('scraper-forgets-option', HTML, "self._robots = robots", "self._robots = False", 'C20-D5c'),

    # ------------------------------------------------------------------ further breaks
    B('big-file-ignored', ROBOTS, "        data = response.body.read()\n        url_info = original_url_info\n",
      "        data = response.body.read()\n        url_info = original_url_info\n\n        if len(data) > 512000:\n            self._accept_as_blank(url_info)\n            return\n", 'C20-D2'),
    B('read-size-from-field', ROBOTS, "data = response.body.read()", "data = response.body.read(self._read_size)", 'C20-D3',
      more=[(ROBOTS, "        self._robots_txt_pool = robots_txt_pool or RobotsTxtPool()\n", "        self._robots_txt_pool = robots_txt_pool or RobotsTxtPool()\n        self._read_size = 65536\n")]),
    B('start-urls-skip-robots', RULE, "if verdict and self._robots_txt_checker:", "if verdict and self._robots_txt_checker and item_session.url_record.level:", 'C20-D4'),
    B('error-handler-returns-only-after-wait', WEB,
      "                yield from asyncio.sleep(wait_time)\n\n            return False\n        else:",
      "                yield from asyncio.sleep(wait_time)\n                return False\n        else:", 'C20-D4'),
    B('remote-errors-without-server-error', 'wpull/processor/base.py', "REMOTE_ERRORS = (\n    ServerError,\n", "REMOTE_ERRORS = (\n", 'C20-D'),
    B('consult-swallows-server-error', RULE,
      "        result = yield from self._robots_txt_checker.can_fetch(request)\n        return result\n",
      "        try:\n            result = yield from self._robots_txt_checker.can_fetch(request)\n        except ServerError:\n            return True\n\n        return result\n", 'C20-D4'),
    B('latch-cleared-after-first-element', HTML,
      "                robots_check_needed = False\n                meta_info['robots_no_follow'] = True\n",
      "                meta_info['robots_no_follow'] = True\n\n            robots_check_needed = False\n", 'C20-D5b'),
    N('second-line-nofollow-keeps-embedded-links', HTML, "context for context in link_contexts if context.linked", "context for context in link_contexts if context.linked and not context.inline"),
    N('second-line-nofollow-generator-mutates-during-iteration', HTML,
      "            link_contexts.difference_update(frozenset(\n                context for context in link_contexts if context.linked\n            ))\n",
      "            link_contexts.difference_update(\n                context for context in link_contexts if context.linked\n            )\n"),

    # ------------------------------------------------------------------ benign twins
    N('rename-locals-can-fetch-pool', ROBOTS,
      "        url_info = request.url_info\n        user_agent = request.fields.get('User-agent', '')\n\n        if self._robots_txt_pool.has_parser(url_info):\n            return self._robots_txt_pool.can_fetch(url_info, user_agent)\n",
      "        info = request.url_info\n        agent = request.fields.get('User-agent', '')\n\n        if self._robots_txt_pool.has_parser(info):\n            return self._robots_txt_pool.can_fetch(info, agent)\n"),
    N('gate-early-raise', ROBOTS,
      "        if self._robots_txt_pool.has_parser(url_info):\n            return self._robots_txt_pool.can_fetch(url_info, user_agent)\n        else:\n            raise NotInPoolError()\n",
      "        if not self._robots_txt_pool.has_parser(url_info):\n            raise NotInPoolError()\n\n        return self._robots_txt_pool.can_fetch(url_info, user_agent)\n"),
    N('can-fetch-by-has-parser', ROBOTS,
      "        try:\n            return self.can_fetch_pool(request)\n        except NotInPoolError:\n            pass\n\n        yield from self.fetch_robots_txt(request, file=file)\n",
      "        if not self._robots_txt_pool.has_parser(request.url_info):\n            yield from self.fetch_robots_txt(request, file=file)\n"),
    N('status-range-spelled-out', ROBOTS, "if 500 <= status_code <= 599:", "if status_code >= 500 and not status_code > 599:"),
    N('status-range-by-class', ROBOTS, "if 500 <= status_code <= 599:", "if status_code // 100 == 5:"),
    N('status-200-first', ROBOTS,
      "            if 500 <= status_code <= 599:\n                raise ServerError('Server returned error for robots.txt.')\n\n            if status_code == 200:\n                self._read_content(response, url_info)\n            else:\n                self._accept_as_blank(url_info)\n",
      "            if status_code == 200:\n                self._read_content(response, url_info)\n            elif status_code in range(500, 600):\n                raise ServerError('Server returned error for robots.txt.')\n            else:\n                self._accept_as_blank(url_info)\n"),
    N('robots-url-percent-format', ROBOTS,
      "URLInfo.parse('{0}://{1}/robots.txt'.format(\n            url_info.scheme, url_info.hostname_with_port)).url",
      "URLInfo.parse('%s://%s/robots.txt' % (\n            url_info.scheme, url_info.hostname_with_port)).url"),
    N('robots-url-concatenated', ROBOTS,
      "URLInfo.parse('{0}://{1}/robots.txt'.format(\n            url_info.scheme, url_info.hostname_with_port)).url",
      "URLInfo.parse(url_info.scheme + '://' + url_info.hostname_with_port +\n            '/robots.txt').url"),
    N('whole-body-via-content', ROBOTS, "data = response.body.read()", "data = response.body.content()"),
    N('whole-body-in-chunks', ROBOTS, "        data = response.body.read()\n",
      "        data = b''\n\n        for chunk in iter(lambda: response.body.read(4096), b''):\n            data += chunk\n\n"),
    N('read-minus-one', ROBOTS, "data = response.body.read()", "data = response.body.read(-1)"),
    N('pool-key-local-renamed', POOL,
      "        key = self.url_info_key(url_info)\n\n        parser = self._parsers[key]\n",
      "        origin = self.url_info_key(url_info)\n\n        parser = self._parsers[origin]\n"),
    N('pool-store-before-parse', POOL, "        parser.parse(text)\n\n        self._parsers[key] = parser\n", "        self._parsers[key] = parser\n        parser.parse(text)\n"),
    N('pool-key-via-class', POOL, "        key = self.url_info_key(url_info)\n        return key in self._parsers\n", "        return RobotsTxtPool.url_info_key(url_info) in self._parsers\n"),
    N('initial-check-restructured', RULE,
      "        if verdict and self._robots_txt_checker:\n            can_fetch = yield from self.consult_robots_txt(request)\n\n            if not can_fetch:\n                verdict = False\n                reason = 'robotstxt'\n",
      "        if self._robots_txt_checker and verdict:\n            if not (yield from self.consult_robots_txt(request)):\n                reason = 'robotstxt'\n                verdict = False\n"),
    N('process-logging', WEB, "        ok = yield from self._process_robots()\n\n        if not ok:\n            return\n",
      "        ok = yield from self._process_robots()\n        _logger.debug('Robots stage result {}', ok)\n\n        if not ok:\n            return\n"),
    N('process-nested-if', WEB,
      "        if not ok:\n            return\n\n        self._processing_rule.add_extra_urls(self._item_session)\n\n        self._web_client_session = self._processor.web_client.session(\n            self._new_initial_request()\n        )\n\n        with self._web_client_session:\n            yield from self._process_loop()\n\n        if not self._item_session.is_processed:\n            _logger.debug('Was not processed. Skipping.')\n            self._item_session.skip()\n",
      "        if ok:\n            self._processing_rule.add_extra_urls(self._item_session)\n\n            self._web_client_session = self._processor.web_client.session(\n                self._new_initial_request()\n            )\n\n            with self._web_client_session:\n                yield from self._process_loop()\n\n            if not self._item_session.is_processed:\n                _logger.debug('Was not processed. Skipping.')\n                self._item_session.skip()\n"),
    N('process-robots-positive-branch', WEB,
      "            if not verdict:\n                self._item_session.skip()\n                return False\n\n        return True\n",
      "            if verdict:\n                return True\n\n            self._item_session.skip()\n            return False\n"),
    N('checker-early-return', DL,
      "        if session.args.robots:\n            robots_txt_pool = session.factory.new('RobotsTxtPool')\n            robots_txt_checker = session.factory.new(\n                'RobotsTxtChecker',\n                web_client=session.factory['WebClient'],\n                robots_txt_pool=robots_txt_pool\n            )\n\n            return robots_txt_checker\n",
      "        if not session.args.robots:\n            return None\n\n        robots_txt_pool = session.factory.new('RobotsTxtPool')\n\n        return session.factory.new(\n            'RobotsTxtChecker',\n            web_client=session.factory['WebClient'],\n            robots_txt_pool=robots_txt_pool\n        )\n"),
    N('nofollow-set-subtraction', HTML,
      "            link_contexts.difference_update(frozenset(\n                context for context in link_contexts if context.linked\n            ))\n",
      "            link_contexts -= {context for context in link_contexts if context.linked}\n"),
    N('nofollow-filtered-rebuild', HTML,
      "            link_contexts.difference_update(frozenset(\n                context for context in link_contexts if context.linked\n            ))\n",
      "            link_contexts = set(\n                context for context in link_contexts if not context.linked\n            )\n"),
    N('nofollow-loop-over-copy', HTML,
      "            link_contexts.difference_update(frozenset(\n                context for context in link_contexts if context.linked\n            ))\n",
      "            for context in tuple(link_contexts):\n                if context.linked:\n                    link_contexts.discard(context)\n"),
    N('nofollow-casefold', HTML, "'nofollow' in element.attrib.get('content', '').lower()", "'nofollow' in element.attrib.get('content', '').casefold()"),
    N('nofollow-operands-swapped', HTML, "element.attrib.get('name', '').lower() == 'robots'", "'robots' == element.attrib.get('name', '').lower()"),
    N('nofollow-flag-renamed', HTML, "robots_no_follow", "no_follow_links", all_=True, more=[('wpull/processor/rule.py', "scrape_result.get('robots_no_follow')", "scrape_result.get('no_follow_links')")]),
    B('nofollow-flag-renamed-in-the-scraper-only', HTML, "robots_no_follow", "no_follow_links", 'C20-D5b') if False else
    {'id': 'C20/nofollow-flag-renamed-in-the-scraper-only', 'prop': 'C20', 'kind': 'break', 'expect': 'C20-D5b', 'all': True, 'edits': [(HTML, "robots_no_follow", "no_follow_links")]},
    N('scraper-args-local', DL,
      "        html_parser = session.factory['HTMLParser']\n        element_walker = session.factory.new('ElementWalker')\n",
      "        html_parser = session.factory['HTMLParser']\n        element_walker = session.factory.new('ElementWalker')\n        obey_robots = session.args.robots\n",
      more=[(DL, "                robots=session.args.robots,\n", "                robots=obey_robots,\n")]),
    N('status-at-least-500', ROBOTS, "if 500 <= status_code <= 599:", "if status_code >= 500:"),
    N('file-closed-by-try-finally', ROBOTS, "        with contextlib.closing(file):\n", "        try:\n",
      more=[(ROBOTS, "            else:\n                self._accept_as_blank(url_info)\n", "            else:\n                self._accept_as_blank(url_info)\n        finally:\n            file.close()\n")]),
    N('whole-body-while-loop', ROBOTS, "        data = response.body.read()\n",
      "        data = b''\n\n        while True:\n            chunk = response.body.read(4096)\n\n            if not chunk:\n                break\n\n            data += chunk\n\n"),
    N('walker-through-instance', HTML, "ElementWalker.robots_cannot_follow(element)", "self._element_walker.robots_cannot_follow(element)"),
    N('consult-with-item-session-request', RULE, "can_fetch = yield from self.consult_robots_txt(request)", "can_fetch = yield from self.consult_robots_txt(item_session.request)"),
    N('remote-errors-spelled-out', WEB, "        except REMOTE_ERRORS as error:\n            _logger.error(\n                _('Fetching robots.txt",
      "        except (ProtocolError, ValueError, OSError) as error:\n            _logger.error(\n                _('Fetching robots.txt"),
]

ENTRIES += [
    B('nofollow-token-unstripped', HTML, "            and 'nofollow' in element.attrib.get('content', '').lower()", "            and 'nofollow' in element.attrib.get('content', '').lower().split(',')", 'C20-D5a'),
    N('nofollow-token-stripped', HTML, "            and 'nofollow' in element.attrib.get('content', '').lower()", "            and 'nofollow' in [token.strip() for token in element.attrib.get('content', '').lower().split(',')]"),
]

RT = 'wpull/robotstxt.py'
ENTRIES += [
    B('regress-robots-bytes-to-parser', RT, "        if isinstance(text, bytes):\n            # The parser would read bytes as Latin-1, but it compares them\n            # with URL paths that it percent-decodes as UTF-8.\n            text = text.decode('utf-8', errors='replace')\n\n", "", 'C20-D3'),
    B('robots-strict-utf8', RT, "            text = text.decode('utf-8', errors='replace')\n", "            text = text.decode('utf-8')\n", 'C20-D3'),
    N('robots-decode-surrogateescape', RT, "            text = text.decode('utf-8', errors='replace')\n", "            text = text.decode('utf8', 'surrogateescape')\n"),
]

_OLD_SCRAPE = ("        result_meta_info = {}\n\n        try:\n            with wpull.util.reset_file_offset(content_file):\n                elements = self.iter_elements(content_file, encoding=encoding)\n\n"
               "                self._process_elements(\n                    elements, response, base_url, link_contexts,\n                    result_meta_info\n                )\n")
ENTRIES += [
    # the shape before the repair: the flag returned by _process_elements, replaced by {} in the handler
    B('regress-nofollow-flag-lost-on-parser-error', HTML, "            )\n\n        if result_meta_info.get('robots_no_follow'):", "            )\n            result_meta_info = {}\n\n        if result_meta_info.get('robots_no_follow'):", 'C20-D5b'),
    N('nofollow-flag-copied-in-try', HTML, "                self._process_elements(\n                    elements, response, base_url, link_contexts,\n                    result_meta_info\n                )\n",
      "                self._process_elements(\n                    elements, response, base_url, link_contexts,\n                    result_meta_info\n                )\n                result_meta_info = dict(result_meta_info)\n"),
    B('nofollow-flag-reset-in-try', HTML, "                self._process_elements(\n                    elements, response, base_url, link_contexts,\n                    result_meta_info\n                )\n",
      "                self._process_elements(\n                    elements, response, base_url, link_contexts,\n                    result_meta_info\n                )\n                result_meta_info = {}\n", 'C20-D5b'),
    N('nofollow-flag-dict-call', HTML, "        result_meta_info = {}\n\n        try:", "        result_meta_info = dict()\n\n        try:"),
]

# since the page-wide nofollow repair the entries named second-line-* above are benign twins: the scraper's own removal is a second line
# of defence, ProcessingRule drops the linked URLs of every result of a nofollow page.  What must fire is a break of the first line:
ENTRIES += [
    B('regress-nofollow-not-shared-with-other-scrapers', 'wpull/processor/rule.py', "            if no_follow and link_context.linked:\n                continue\n\n", "", 'C20-D5b'),
    B('nofollow-consumer-skips-inline-instead', 'wpull/processor/rule.py', "            if no_follow and link_context.linked:", "            if no_follow and link_context.inline:", 'C20-D5b'),
    B('nofollow-published-from-other-key', HTML, "            result_meta_info.get('robots_no_follow'))", "            result_meta_info.get('robots_nofollow'))", 'C20-D5b'),
    B('nofollow-verdict-not-handed-on', 'wpull/processor/rule.py', "                scraper, scrape_result, item_session, no_follow=no_follow\n", "                scraper, scrape_result, item_session\n", 'C20-D5b'),
]

JS = 'wpull/scraper/javascript.py'
ENTRIES += [
    B('js-linked-only-when-known', JS, "LinkContext(link, inline=inline, linked=not inline,", "LinkContext(link, inline=bool(inline), linked=inline is False,", 'C20-D5b'),
    B('js-linked-dropped', JS, "LinkContext(link, inline=inline, linked=not inline,", "LinkContext(link, inline=inline,", 'C20-D5b'),
    N('js-linked-always', JS, "LinkContext(link, inline=inline, linked=not inline,", "LinkContext(link, inline=inline, linked=True,"),
]

HT = 'wpull/scraper/html.py'
ENTRIES += [
    B('walker-table-entry-without-flag', HT, "        'form': {'action': ATTR_HTML},", "        'form': {'action': 0},", 'C20-D5b'),
    B('walker-fallbacks-overlap', HT, "            return attr_flags & cls.ATTR_HTML\n\n        return attribute == 'href'", "            return attr_flags & cls.ATTR_HTML\n\n        return attribute == 'src'", 'C20-D5b'),
    N('walker-table-both-flags', HT, "        'form': {'action': ATTR_HTML},", "        'form': {'action': ATTR_INLINE | ATTR_HTML},"),
]

RB = 'wpull/protocol/http/robots.py'
ENTRIES += [
    B('regress-5xx-unreadable-body-blank', RB, "                        if response is not None and \\\n                                500 <= response.status_code <= 599:\n", "                        if False:\n", 'C20-D4'),
    N('5xx-asked-before-download', RB, "                        response = yield from session.start()\n                        yield from session.download(file=file)\n",
      "                        response = yield from session.start()\n\n                        if 500 <= response.status_code <= 599:\n                            raise ServerError('Server returned error for robots.txt.')\n\n                        yield from session.download(file=file)\n"),
]
