F = 'wpull/urlfilter.py'
R = 'wpull/processor/rule.py'
W = 'wpull/processor/web.py'
T = 'wpull/application/tasks/rule.py'
P = 'wpull/processor/ftp.py'
U = 'wpull/url.py'


def B(i, old, new, expect=None, rel=F):
    return {'id': 'C02/' + i, 'prop': 'C02', 'kind': 'break', 'edits': [(rel, old, new)], 'expect': expect}


def N(i, old, new, rel=F):
    return {'id': 'C02/benign-' + i, 'prop': 'C02', 'kind': 'benign', 'edits': [(rel, old, new)]}


ENTRIES = [
    B('level-lt', "return url_table_record.level <= self._depth\n", "return url_table_record.level < self._depth\n", 'C02-D2'),
    B('level-inline-plus', "return url_table_record.level <= self._depth + 2", "return url_table_record.level <= self._depth + 3", 'C02-D2'),
    B('tries-le', "return url_table_record.try_count < self._tries", "return url_table_record.try_count <= self._tries", 'C02-D2'),
    B('hostname-accept-inverted', "if self._accepted and not test_domain in self._accepted:", "if self._accepted and test_domain in self._accepted:", 'C02-D2'),
    B('domain-swapped-lists', "        if self._rejected and self.match(self._rejected, test_domain):\n            return False\n\n        return True\n\n    @classmethod\n    def match(cls, domain_list",
      "        if self._rejected and self.match(self._accepted, test_domain):\n            return False\n\n        return True\n\n    @classmethod\n    def match(cls, domain_list", 'C02-D2'),
    B('recursive-inline-uses-enabled', "        if url_table_record.inline_level:\n            if self._page_requisites:\n                return True\n        else:",
      "        if url_table_record.inline_level:\n            if self._page_requisites or self._enabled:\n                return True\n        else:", 'C02-D2'),
    B('span-linked-no-parent-check', "if self._linked_pages and url_table_record.parent_url_info \\\n           and url_table_record.parent_url_info.hostname in self._hostnames:",
      "if self._linked_pages and url_table_record.parent_url_info:", 'C02-D2'),
    B('parent-port-dropped', "           and (\n               url_info.scheme != top_url_info.scheme or\n               url_info.port == top_url_info.port\n        ):", "           :", None),
    B('followftp-always', "                return self._follow\n            else:", "                return True\n            else:", 'C02-D2'),
    B('regex-reject-ignored', "        if self._rejected and re.search(self._rejected, url_info.url):\n            return False\n\n        return True\n\n\nclass DirectoryFilter",
      "        return True\n\n\nclass DirectoryFilter", 'C02-D2'),
    B('filename-empty-rejects', "        if not test_filename:\n            return True\n\n        if self._accepted:", "        if not test_filename:\n            return False\n\n        if self._accepted:", 'C02-D2'),
    B('https-only-http', "return url_info.scheme == 'https'", "return url_info.scheme in ('http', 'https')", 'C02-D2'),
    B('demux-break', "            if result:\n                passed.add(url_filter)\n            else:\n                failed.add(url_filter)",
      "            if result:\n                passed.add(url_filter)\n            else:\n                failed.add(url_filter)\n                break", 'C02-D1'),
    B('demux-verdict-le1', "'verdict': len(failed) == 0,", "'verdict': len(failed) <= 1,", 'C02-D1'),
    B('demux-none-passes', "            if result:\n                passed.add(url_filter)", "            if result is not False:\n                passed.add(url_filter)", 'C02-D1'),
    B('waiver-ge1', "len(test_info['failed']) == 1 and", "len(test_info['failed']) >= 1 and", 'C02-D3', R),
    B('waiver-no-redirect', "        elif is_redirect and self.is_only_span_hosts_failed(test_info):", "        elif self.is_only_span_hosts_failed(test_info):", 'C02-D3', R),
    B('waiver-any-filter', "            'SpanHostsFilter' in test_info['map'] and\n            not test_info['map']['SpanHostsFilter']", "            'SpanHostsFilter' in test_info['map']", 'C02-D3', R),
    B('generic-forced', "            item_session.request.url_info,\n            item_session.url_record)\n\n        verdict, reason = self.consult_hook(item_session, verdict,\n                                            reason, test_info)",
      "            item_session.request.url_info,\n            item_session.url_record)\n\n        if item_session.url_record.level == 0:\n            verdict = True\n\n        verdict, reason = self.consult_hook(item_session, verdict,\n                                            reason, test_info)", 'C02-D3', R),
    B('redirect-without-strong', "        is_redirect = False\n\n        if self._strong_redirects:", "        is_redirect = False\n\n        if True:", 'C02-D3', W),
    B('loop-no-skip', "            if not verdict:\n                self._item_session.skip()\n                break\n\n            exit_early", "            if not verdict:\n                self._item_session.skip()\n\n            exit_early", 'C02-D4', W),
    B('loop-verdict-once', "        while not self._web_client_session.done():\n            self._item_session.request = self._web_client_session.next_request()\n\n            verdict, reason = self._should_fetch_reason()\n",
      "        verdict, reason = self._should_fetch_reason()\n\n        while not self._web_client_session.done():\n            self._item_session.request = self._web_client_session.next_request()\n", 'C02-D4', W),
    B('robots-verdict-ignored', "            if not verdict:\n                self._item_session.skip()\n                return False\n\n        return True", "            if not verdict:\n                self._item_session.skip()\n\n        return True", 'C02-D4', W),
    B('ftp-no-gate', "        if not verdict:\n            self._item_session.skip()\n            return\n\n        self._add_request_password(request)", "        if not verdict:\n            self._item_session.skip()\n\n        self._add_request_password(request)", 'C02-D4', P),
    B('wiring-domains-swapped', "BackwardDomainFilter(args.domains, args.exclude_domains)", "BackwardDomainFilter(args.exclude_domains, args.domains)", 'C02-D5', T),
    B('wiring-append-dropped', "        if args.no_parent:\n            filters.append(ParentFilter())\n", "        if args.no_parent:\n            pass\n", 'C02-D5', T),
    B('wiring-level-cond', "if args.level and args.recursive or args.page_requisites_level:", "if args.level and args.recursive and args.page_requisites_level:", 'C02-D5', T),
    B('wiring-span-copy', "        demux_url_filter.url_filters.append(span_hosts_filter)", "        list(demux_url_filter.url_filters).append(span_hosts_filter)", 'C02-D5', T),
    B('wiring-span-enabled', "enabled=args.span_hosts,", "enabled=args.span_hosts or args.recursive,", 'C02-D5', T),
    B('schemes-similar-any', "    if scheme1 in ('http', 'https') and scheme2 in ('http', 'https'):\n        return True\n\n    return False", "    if scheme1 in ('http', 'https') or scheme2 in ('http', 'https'):\n        return True\n\n    return False", 'C02-D2', U),
    B('subdir-swapped', "        return test_path.startswith(base_path)", "        return base_path.startswith(test_path)", 'C02-D2', U),
    N('tries-flipped', "return url_table_record.try_count < self._tries", "return self._tries > url_table_record.try_count"),
    N('tries-guard-style', "        if self._tries:\n            return url_table_record.try_count < self._tries\n        else:\n            return True", "        if not self._tries:\n            return True\n        return url_table_record.try_count < self._tries"),
    N('level-not-gt', "return url_table_record.level <= self._depth\n", "return not url_table_record.level > self._depth\n"),
    N('verdict-not-failed', "'verdict': len(failed) == 0,", "'verdict': not failed,"),
    N('hostname-not-in', "if self._accepted and not test_domain in self._accepted:", "if self._accepted and test_domain not in self._accepted:"),
    N('rename-local', "test_domain", "host_name"),
    N('span-reordered', "        if self._enabled:\n            return True\n\n        if url_info.hostname in self._hostnames:\n            return True\n", "        if url_info.hostname in self._hostnames:\n            return True\n\n        if self._enabled:\n            return True\n"),
    N('wiring-keywords', "BackwardDomainFilter(args.domains, args.exclude_domains)", "BackwardDomainFilter(accepted=args.domains, rejected=args.exclude_domains)", T),
]
for e in ENTRIES:
    if e['id'].endswith('rename-local'):
        e['all'] = True

ENTRIES += [
    N('robots-hop-inspected', "                while not session.done():\n                    wpull.util.truncate_file(file.name)\n",
      "                while not session.done():\n                    if session.next_request().url_info.hostname != url_info.hostname:\n                        break\n\n                    wpull.util.truncate_file(file.name)\n", 'wpull/protocol/http/robots.py'),
]

ENTRIES += [
    B('regress-hostnames-of-every-queued-url', "            hostnames = (URLInfo.parse(url).hostname for url in added_urls\n                         if url in start_urls)", "            hostnames = (URLInfo.parse(url).hostname for url in added_urls)", 'C02-D5', 'wpull/database/sqltable.py'),
    N('hostnames-start-test-inline', "            hostnames = (URLInfo.parse(url).hostname for url in added_urls\n                         if url in start_urls)", "            roots = start_urls\n            hostnames = [URLInfo.parse(url).hostname for url in added_urls if url in roots]", 'wpull/database/sqltable.py'),
]

ENTRIES += [
    B('regress-directory-glob-whole-path', "        return fnmatch.fnmatchcase(test_path, base_path + '*')", "        return fnmatch.fnmatchcase(test_path, base_path)", 'C02-D2', 'wpull/url.py'),
]

DL = 'wpull/application/tasks/download.py'
ENTRIES += [
    B('strong-redirects-not-wired', "            strong_redirects=args.strong_redirects,\n", "", 'C02-D3', DL),
    B('strong-redirects-wrong-option', "            strong_redirects=args.strong_redirects,\n", "            strong_redirects=args.span_hosts,\n", 'C02-D3', DL),
    N('strong-redirects-positional-order', "            post_data=post_data,\n            strong_redirects=args.strong_redirects,\n", "            strong_redirects=args.strong_redirects,\n            post_data=post_data,\n", DL),
]

ENTRIES += [
    B('regress-host-list-case', "        # Hostnames of parsed URLs are lowercase\n        self._accepted = [item.lower() for item in accepted or ()]\n        self._rejected = [item.lower() for item in rejected or ()]\n\n    def test(self, url_info, url_table_record):\n        test_domain = url_info.hostname\n        if self._accepted and not test_domain in self._accepted:",
      "        self._accepted = accepted\n        self._rejected = rejected\n\n    def test(self, url_info, url_table_record):\n        test_domain = url_info.hostname\n        if self._accepted and not test_domain in self._accepted:", 'C02-D5'),
    N('host-list-case-frozenset', "        # Hostnames of parsed URLs are lowercase\n        self._accepted = [item.lower() for item in accepted or ()]\n        self._rejected = [item.lower() for item in rejected or ()]\n\n    def test(self, url_info, url_table_record):\n        test_domain = url_info.hostname\n        if self._accepted and not test_domain in self._accepted:",
      "        self._accepted = frozenset(item.casefold() for item in accepted or ())\n        self._rejected = frozenset(item.casefold() for item in rejected or ())\n\n    def test(self, url_info, url_table_record):\n        test_domain = url_info.hostname\n        if self._accepted and not test_domain in self._accepted:"),
]

ENTRIES += [
    B('regress-comma-list-empty-item', "items = list([item.strip() for item in items if item.strip()])", "items = list([item.strip() for item in items])", 'C02-D5', 'wpull/application/options.py'),
    N('comma-list-filter-none', "items = list([item.strip() for item in items if item.strip()])", "items = list(filter(None, [item.strip() for item in items]))", 'wpull/application/options.py'),
]
