D = 'wpull/decompression.py'
S = 'wpull/protocol/http/stream.py'
K = 'wpull/protocol/http/chunked.py'


def B(i, old, new, expect=None, rel=S):
    return {'id': 'C19/' + i, 'prop': 'C19', 'kind': 'break', 'edits': [(rel, old, new)], 'expect': expect}


def N(i, old, new, rel=S, all=False):
    e = {'id': 'C19/benign-' + i, 'prop': 'C19', 'kind': 'benign', 'edits': [(rel, old, new)]}
    if all:
        e['all'] = True
    return e


ENTRIES = [
    # ------------------------------------------------------------------ D1: the format decision (decompression.py)
    B('gzip-magic-two-bytes', "if value[:1] == b'\\x1f':", "if value[:2] == b'\\x1f\\x8b':", 'C19-D1', D),
    B('gzip-startswith-two-bytes', "if value[:1] == b'\\x1f':", "if value.startswith(b'\\x1f\\x8b'):", 'C19-D1', D),
    B('gzip-selector-by-exception',
      "            if value[:1] == b'\\x1f':\n                self.is_ok = True\n                return super().decompress(value)\n"
      "            else:\n                self.is_ok = False\n                return value\n",
      "            try:\n                data = super().decompress(value)\n                self.is_ok = True\n                return data\n"
      "            except zlib.error:\n                self.is_ok = False\n                return value\n", 'C19-D1', D),
    B('gzip-selector-by-length', "if value[:1] == b'\\x1f':", "if len(value) > 1 and value[:1] == b'\\x1f':", 'C19-D1', D),
    B('gzip-resniff-every-piece', "            self.checked = True\n            if value[:1]", "            if value[:1]", 'C19-D1', D),
    B('gzip-first-piece-not-decoded', "                self.is_ok = True\n                return super().decompress(value)",
      "                self.is_ok = True\n                return value", 'C19-D1', D),
    B('gzip-steady-inverted', "            if self.is_ok:\n                return super().decompress(value)",
      "            if not self.is_ok:\n                return super().decompress(value)", 'C19-D1', D),
    B('gzip-magic-wrong-byte', "if value[:1] == b'\\x1f':", "if value[:1] == b'\\x8b':", 'C19-D1', D),
    B('gzip-magic-inverted', "if value[:1] == b'\\x1f':", "if value[:1] != b'\\x1f':", 'C19-D1', D),
    B('gzip-wbits-plain-zlib', "zlib.decompressobj(16 + zlib.MAX_WBITS)", "zlib.decompressobj(zlib.MAX_WBITS)", 'C19-D1', D),
    B('deflate-fallback-not-raw', "zlib.decompressobj(-zlib.MAX_WBITS)", "zlib.decompressobj(zlib.MAX_WBITS)", 'C19-D1', D),
    B('deflate-fallback-handler-narrowed', "            except zlib.error:\n                self.decompressobj = zlib.decompressobj(-zlib.MAX_WBITS)",
      "            except ValueError:\n                self.decompressobj = zlib.decompressobj(-zlib.MAX_WBITS)", 'C19-D1', D),
    B('deflate-raw-first',
      "                self.decompressobj = zlib.decompressobj()\n                return self.decompressobj.decompress(value)\n            except zlib.error:\n"
      "                self.decompressobj = zlib.decompressobj(-zlib.MAX_WBITS)",
      "                self.decompressobj = zlib.decompressobj(-zlib.MAX_WBITS)\n                return self.decompressobj.decompress(value)\n            except zlib.error:\n"
      "                self.decompressobj = zlib.decompressobj()", 'C19-D1', D),
    B('gzip-checked-only-on-match', "            self.checked = True\n            if value[:1] == b'\\x1f':\n                self.is_ok = True\n",
      "            if value[:1] == b'\\x1f':\n                self.checked = True\n                self.is_ok = True\n", 'C19-D1', D),
    # ------------------------------------------------------------------ D2: readers (stream.py)
    B('chunk-flush-before-loop',
      "        file_is_async = hasattr(file, 'drain')\n\n        while True:\n            chunk_size, data = yield from reader.read_chunk_header()\n",
      "        file_is_async = hasattr(file, 'drain')\n        file.write(self._flush_decompressor())\n\n        while True:\n            chunk_size, data = yield from reader.read_chunk_header()\n", 'C19-D2'),
    B('chunk-early-return', "            if not chunk_size:\n                break\n", "            if not chunk_size:\n                return\n", 'C19-D2'),
    B('encoding-typo', "elif encoding == 'deflate':", "elif encoding == 'defalte':", 'C19-D2'),
    B('close-no-flush', "        content_data = self._flush_decompressor()\n\n        if file:\n", "        content_data = b''\n\n        if file:\n", 'C19-D2'),
    B('length-flush-only-on-short-read',
      "        if bytes_left > 0:\n            raise NetworkError('Connection closed.')\n\n        content_data = self._flush_decompressor()\n",
      "        content_data = b''\n        if bytes_left > 0:\n            content_data = self._flush_decompressor()\n            raise NetworkError('Connection closed.')\n", 'C19-D2'),
    B('chunk-flush-in-loop',
      "                content = self._decompress_data(content)\n\n                if file:\n                    file.write(content)\n",
      "                content = self._decompress_data(content) + self._flush_decompressor()\n\n                if file:\n                    file.write(content)\n", 'C19-D2'),
    B('chunk-flush-dropped', "        content = self._flush_decompressor()\n\n        if file:\n            file.write(content)\n",
      "        self._flush_decompressor()\n        content = b''\n\n        if file:\n            file.write(content)\n", 'C19-D2'),
    B('chunk-decode-raw-item', "content, data = yield from reader.read_chunk_body()", "data, content = yield from reader.read_chunk_body()", 'C19-D2'),
    B('chunk-decode-header', "                content = self._decompress_data(content)\n", "                content = self._decompress_data(data + content)\n", 'C19-D2'),
    B('close-writes-undecoded',
      "            content_data = self._decompress_data(data)\n\n            if file:\n                file.write(content_data)\n\n                if file_is_async:\n                    yield from file.drain()\n\n        content_data = self._flush_decompressor()\n\n        if file:\n",
      "            content_data = self._decompress_data(data)\n\n            if file:\n                file.write(data)\n\n                if file_is_async:\n                    yield from file.drain()\n\n        content_data = self._flush_decompressor()\n\n        if file:\n", 'C19-D2'),
    B('length-decode-before-trim',
      "            bytes_left -= len(data)\n\n            if bytes_left < 0:\n                data = data[:bytes_left]\n\n                _logger.warning(_('Content overrun.'))\n                self.close()\n\n            self._data_event_dispatcher.notify_read(data)\n\n            content_data = self._decompress_data(data)\n",
      "            bytes_left -= len(data)\n            content_data = self._decompress_data(data)\n\n            if bytes_left < 0:\n                data = data[:bytes_left]\n\n                _logger.warning(_('Content overrun.'))\n                self.close()\n\n            self._data_event_dispatcher.notify_read(data)\n", 'C19-D2'),
    B('length-flush-not-written', "        if file and content_data:\n            file.write(content_data)\n", "        if file and not content_data:\n            file.write(content_data)\n", 'C19-D2'),
    B('setup-after-readers',
      "            if not raw:\n                self._setup_decompressor(response)\n\n            read_strategy = self.get_read_strategy(response)\n",
      "            read_strategy = self.get_read_strategy(response)\n", 'C19-D2'),
    B('setup-only-when-raw', "            if not raw:\n                self._setup_decompressor(response)", "            if raw:\n                self._setup_decompressor(response)", 'C19-D2'),
    B('encoding-swapped', "            self._decompressor = wpull.decompression.GzipDecompressor()\n        elif encoding == 'deflate':\n            self._decompressor = wpull.decompression.DeflateDecompressor()",
      "            self._decompressor = wpull.decompression.DeflateDecompressor()\n        elif encoding == 'deflate':\n            self._decompressor = wpull.decompression.GzipDecompressor()", 'C19-D2'),
    B('encoding-case-sensitive', "response.fields.get('Content-Encoding', '').lower()", "response.fields.get('Content-Encoding', '')", 'C19-D2'),
    B('encoding-stale-decoder', "        else:\n            self._decompressor = None\n\n    def _decompress_data", "        else:\n            pass\n\n    def _decompress_data", 'C19-D2'),
    B('encoding-simple-gzip', "self._decompressor = wpull.decompression.GzipDecompressor()", "self._decompressor = wpull.decompression.SimpleGzipDecompressor()", 'C19-D2'),
    B('chunk-body-content-is-newline', "        return (b'', newline_data)", "        return (newline_data, newline_data)", 'C19-D2', K),
    # ------------------------------------------------------------------ D3: error discipline
    B('decode-handler-narrowed', "            except zlib.error as error:\n                raise ProtocolError(\n                    'zlib error: {0}.'",
      "            except ValueError as error:\n                raise ProtocolError(\n                    'zlib error: {0}.'", 'C19-D3'),
    B('flush-no-wrapper',
      "            try:\n                return self._decompressor.flush()\n            except zlib.error as error:\n                raise ProtocolError(\n                    'zlib flush error: {0}.'.format(error)\n                ) from error\n",
      "            return self._decompressor.flush()\n", 'C19-D3'),
    B('flush-error-swallowed',
      "                raise ProtocolError(\n                    'zlib flush error: {0}.'.format(error)\n                ) from error\n",
      "                _logger.warning('zlib flush error: {0}.'.format(error))\n                return b''\n", 'C19-D3'),
    B('decode-error-as-network-error', "                raise ProtocolError(\n                    'zlib error: {0}.'.format(error)", "                raise NetworkError(\n                    'zlib error: {0}.'.format(error)", 'C19-D3'),
    B('decode-guard-inverted', "        if self._decompressor:\n            try:\n                return self._decompressor.decompress(data)", "        if not self._decompressor:\n            try:\n                return self._decompressor.decompress(data)", 'C19-D3'),
    B('decode-result-dropped', "                return self._decompressor.decompress(data)\n", "                self._decompressor.decompress(data)\n                return data\n", 'C19-D3'),
    # ------------------------------------------------------------------ D4: the decoder's flush
    B('gzip-flush-guard-inverted', "    def flush(self):\n        if self.is_ok:\n            return super().flush()", "    def flush(self):\n        if not self.is_ok:\n            return super().flush()", 'C19-D4', D),
    B('simple-flush-noop', "        return self.decompressobj.flush()\n", "        return b''\n", 'C19-D4', D),
    B('deflate-flush-never', "        if self.decompressobj:\n            return super().flush()\n        else:\n            return b''", "        return b''", 'C19-D4', D),

    # ------------------------------------------------------------------ benign twins
    N('rename-result-local', "content_data", "decoded", all=True),
    N('rename-piece-param', "value", "chunk", D, all=True),
    N('gzip-startswith-one-byte', "if value[:1] == b'\\x1f':", "if value.startswith(b'\\x1f'):", D),
    N('gzip-index-test', "if value[:1] == b'\\x1f':", "if value[0] == 0x1f:", D),
    N('gzip-selector-stored-test',
      "            if value[:1] == b'\\x1f':\n                self.is_ok = True\n                return super().decompress(value)\n            else:\n                self.is_ok = False\n                return value\n",
      "            self.is_ok = value[:1] == b'\\x1f'\n            if self.is_ok:\n                return super().decompress(value)\n            return value\n", D),
    N('length-flush-before-short-check',
      "        if bytes_left > 0:\n            raise NetworkError('Connection closed.')\n\n        content_data = self._flush_decompressor()\n",
      "        content_data = self._flush_decompressor()\n\n        if bytes_left > 0:\n            raise NetworkError('Connection closed.')\n"),
    N('flush-releases-decoder',
      "            try:\n                return self._decompressor.flush()\n            except zlib.error as error:",
      "            try:\n                tail = self._decompressor.flush()\n                self._decompressor = None\n                return tail\n            except zlib.error as error:"),
    N('gzip-branches-flipped',
      "        if self.checked:\n            if self.is_ok:\n                return super().decompress(value)\n            else:\n                return value\n        else:\n",
      "        if self.checked and self.is_ok:\n            return super().decompress(value)\n        elif self.checked:\n            return value\n        else:\n", D),
    N('gzip-flush-early-return', "        if self.is_ok:\n            return super().flush()\n        else:\n            return b''",
      "        if not self.is_ok:\n            return b''\n        return super().flush()", D),
    N('deflate-none-test', "        if not self.decompressobj:\n            try:", "        if self.decompressobj is None:\n            try:", D),
    N('length-flush-guard-plain', "        if file and content_data:\n            file.write(content_data)", "        if file:\n            file.write(content_data)"),
    N('close-reorder-notify',
      "            self._data_event_dispatcher.notify_read(data)\n\n            content_data = self._decompress_data(data)\n\n            if file:\n                file.write(content_data)\n\n                if file_is_async:\n                    yield from file.drain()\n\n        content_data = self._flush_decompressor()\n\n        if file:\n",
      "            content_data = self._decompress_data(data)\n            self._data_event_dispatcher.notify_read(data)\n\n            if file:\n                file.write(content_data)\n\n                if file_is_async:\n                    yield from file.drain()\n\n        content_data = self._flush_decompressor()\n\n        if file:\n"),
    N('decode-early-return',
      "        if self._decompressor:\n            try:\n                return self._decompressor.decompress(data)\n            except zlib.error as error:\n                raise ProtocolError(\n                    'zlib error: {0}.'.format(error)\n                ) from error\n        else:\n            return data\n",
      "        if not self._decompressor:\n            return data\n\n        try:\n            result = self._decompressor.decompress(data)\n        except (zlib.error,) as err:\n            _logger.debug('zlib error')\n            raise ProtocolError('zlib error: {0}.'.format(err)) from err\n\n        return result\n"),
    N('encoding-x-gzip', "        if encoding == 'gzip':", "        if encoding in ('gzip', 'x-gzip'):"),
    N('chunk-flush-after-trailer',
      "        content = self._flush_decompressor()\n\n        if file:\n            file.write(content)\n\n            if file_is_async:\n                yield from file.drain()\n\n        trailer_data = yield from reader.read_trailer()\n\n        self._data_event_dispatcher.notify_read(trailer_data)\n",
      "        trailer_data = yield from reader.read_trailer()\n\n        self._data_event_dispatcher.notify_read(trailer_data)\n\n        content = self._flush_decompressor()\n\n        if file:\n            file.write(content)\n\n            if file_is_async:\n                yield from file.drain()\n"),
]

_SETUP_OLD = "        if encoding == 'gzip':\n            self._decompressor = wpull.decompression.GzipDecompressor()\n        elif encoding == 'deflate':\n            self._decompressor = wpull.decompression.DeflateDecompressor()\n        else:\n            self._decompressor = None\n"
ENTRIES += [
    {'id': 'C19/benign-module-table-with-reset', 'prop': 'C19', 'kind': 'benign', 'edits': [
        (S, "class Stream(object):\n", "CONTENT_DECOMPRESSORS = {\n    'gzip': wpull.decompression.GzipDecompressor,\n    'deflate': wpull.decompression.DeflateDecompressor,\n}\n\n\nclass Stream(object):\n"),
        (S, _SETUP_OLD, "        decompressor_class = CONTENT_DECOMPRESSORS.get(encoding)\n\n        if decompressor_class:\n            self._decompressor = decompressor_class()\n        else:\n            self._decompressor = None\n")]},
    {'id': 'C19/module-table-no-reset', 'prop': 'C19', 'kind': 'break', 'expect': 'C19-D2', 'edits': [
        (S, "class Stream(object):\n", "CONTENT_DECOMPRESSORS = {\n    'gzip': wpull.decompression.GzipDecompressor,\n    'deflate': wpull.decompression.DeflateDecompressor,\n}\n\n\nclass Stream(object):\n"),
        (S, _SETUP_OLD, "        decompressor_class = CONTENT_DECOMPRESSORS.get(encoding)\n\n        if decompressor_class:\n            self._decompressor = decompressor_class()\n")]},
]
