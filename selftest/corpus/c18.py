R = 'wpull/protocol/http/redirect.py'
W = 'wpull/protocol/http/web.py'
P = 'wpull/processor/web.py'
RB = 'wpull/protocol/http/robots.py'
RU = 'wpull/processor/rule.py'
S = 'wpull/pipeline/session.py'
Q = 'wpull/database/sqltable.py'
WR = 'wpull/database/wrap.py'
UF = 'wpull/urlfilter.py'
T = 'wpull/application/tasks/rule.py'
D = 'wpull/application/tasks/download.py'
F = 'wpull/processor/ftp.py'


def B(i, rel, old, new, expect=None, more=()):
    return {'id': 'C18/' + i, 'prop': 'C18', 'kind': 'break', 'edits': [(rel, old, new)] + list(more), 'expect': expect}


def N(i, rel, old, new, more=()):
    return {'id': 'C18/benign-' + i, 'prop': 'C18', 'kind': 'benign', 'edits': [(rel, old, new)] + list(more)}


TRY_BLOCK = """        try:
            url = self._redirect_tracker.next_location()

            if not url:
                raise ProtocolError('Redirect location missing.')
"""

ENTRIES = [
    # ---------------------------------------------------------------- D1 counter
    B('counter-reset-in-load', R, "        if self.next_location(raw=True):\n            self._num_redirects += 1\n",
      "        if self.next_location(raw=True):\n            self._num_redirects += 1\n        else:\n            self._num_redirects = 0\n", 'C18-D1'),
    B('counter-reset-on-repeat', R, "        if self._response:\n            return self._response.status_code in self._repeat_codes",
      "        if self._response:\n            self._num_redirects = 0\n            return self._response.status_code in self._repeat_codes", 'C18-D1'),
    B('counter-decrement', R, "            self._num_redirects += 1", "            self._num_redirects -= 1", 'C18-D1'),
    B('counter-only-for-absolute', R, "        if self.next_location(raw=True):\n            self._num_redirects += 1",
      "        if self.next_location(raw=True) and '://' in self.next_location(raw=True):\n            self._num_redirects += 1", 'C18-D1'),
    B('exceeded-always-false', R, "        return self._num_redirects > self._max_redirects", "        return False", 'C18-D1'),
    B('exceeded-inverted', R, "        return self._num_redirects > self._max_redirects", "        return self._num_redirects < self._max_redirects", 'C18-D1'),
    B('exceeded-doubled-limit', R, "        return self._num_redirects > self._max_redirects", "        return self._num_redirects > self._max_redirects * 2", 'C18-D1'),
    B('max-overwritten', R, "        self._response = response\n\n        if self.next_location(raw=True):",
      "        self._response = response\n        self._max_redirects += 1\n\n        if self.next_location(raw=True):", 'C18-D1'),
    B('location-optional', R, "            if not location or raw:\n                return location", "            if raw:\n                return location", 'C18-D1'),
    # ---------------------------------------------------------------- D1 web session
    B('limit-test-after-build', W, "        if self._redirect_tracker.exceeded():\n            raise ProtocolError('Too many redirects.')\n\n", "",
      'C18-D1', more=[(W, "        self._next_request = request\n\n        _logger.debug('Updated next redirect",
                       "        self._next_request = request\n\n        if self._redirect_tracker.exceeded():\n            raise ProtocolError('Too many redirects.')\n\n        _logger.debug('Updated next redirect")]),
    B('limit-test-only-logs', W, "            raise ProtocolError('Too many redirects.')", "            _logger.warning('Too many redirects.')", 'C18-D1'),
    B('limit-raise-unhandled-type', W, "            raise ProtocolError('Too many redirects.')", "            raise RuntimeError('Too many redirects.')", 'C18-D1'),
    B('limit-test-inverted', W, "        if self._redirect_tracker.exceeded():", "        if not self._redirect_tracker.exceeded():", 'C18-D1'),
    B('load-dropped', W, "        self._redirect_tracker.load(response)\n\n", "", 'C18-D1'),
    B('load-after-redirect', W, "        self._redirect_tracker.load(response)\n\n        if self._redirect_tracker.is_redirect():\n            self._process_redirect()",
      "        if self._redirect_tracker.is_redirect():\n            self._process_redirect()\n            self._redirect_tracker.load(response)", 'C18-D1'),
    B('auth-retry-unguarded', W, "        if self._loop_type == LoopType.authentication:\n            _logger.warning(_('Unable to authenticate.'))\n            self._next_request = None\n            self._loop_type = LoopType.normal\n            return\n\n", "", 'C18-D1'),
    B('auth-retry-not-recorded', W, "        self._loop_type = LoopType.authentication\n", "", 'C18-D1'),
    B('auth-loop-type-reset', W, "            self._process_authentication(response)\n", "            self._process_authentication(response)\n            self._loop_type = LoopType.normal\n", 'C18-D1'),
    B('auth-guard-wrong-member', W, "        if self._loop_type == LoopType.authentication:", "        if self._loop_type == LoopType.robots:", 'C18-D1'),
    B('missing-location-not-checked', W, "            if not url:\n                raise ProtocolError('Redirect location missing.')\n\n", "", 'C18-D1'),
    B('value-error-handler-narrowed', W, "        except ValueError as error:\n            raise ProtocolError('Invalid redirect location.') from error",
      "        except UnicodeError as error:\n            raise ProtocolError('Invalid redirect location.') from error", 'C18-D1'),
    B('prepare-outside-try', W, "            request.prepare_for_send()\n        except ValueError as error:\n            raise ProtocolError('Invalid redirect location.') from error\n",
      "        except ValueError as error:\n            raise ProtocolError('Invalid redirect location.') from error\n\n        request.prepare_for_send()\n", 'C18-D1'),
    B('invalid-location-swallowed', W, "            raise ProtocolError('Invalid redirect location.') from error", "            _logger.debug('Invalid redirect location.')\n            return", 'C18-D1'),
    B('response-not-processed', W, "        self._process_response(response)\n\n        return response", "        return response", 'C18-D1'),
    B('next-request-kept-on-final', W, "        else:\n            self._next_request = None\n            self._loop_type = LoopType.normal\n\n        if self._cookie_jar:",
      "        else:\n            self._loop_type = LoopType.normal\n\n        if self._cookie_jar:", 'C18-D1'),
    # ---------------------------------------------------------------- D1 loops
    B('fetch-error-does-not-stop', P, "            if response and response.body:\n                response.body.close()\n\n            return True, wait_time", "            if response and response.body:\n                response.body.close()\n\n            return False, wait_time", 'C18-D1'),
    B('exit-early-ignored', P, "            if exit_early:\n                break\n", "", 'C18-D1'),
    B('robots-loop-continues-on-error', RB, "                        self._accept_as_blank(url_info)\n\n                        return\n\n            status_code = response.status_code",
      "                        continue\n\n            status_code = response.status_code", 'C18-D1'),
    B('session-recreated-per-hop', P, "            verdict, reason = self._should_fetch_reason()\n",
      "            verdict, reason = self._should_fetch_reason()\n            self._web_client_session = self._processor.web_client.session(self._item_session.request)\n", 'C18-D1'),
    # ---------------------------------------------------------------- D2
    B('max-redirects-not-passed', D, "            session.factory.class_map['RedirectTracker'],\n            max_redirects=session.args.max_redirect\n", "            session.factory.class_map['RedirectTracker'],\n", 'C18-D2'),
    B('max-redirects-wrong-option', D, "            max_redirects=session.args.max_redirect", "            max_redirects=session.args.tries", 'C18-D2'),
    B('factory-not-handed-over', D, "            redirect_tracker_factory=redirect_factory,\n", "", 'C18-D2'),
    B('tracker-shared', W, "        self._redirect_tracker_factory = redirect_tracker_factory\n", "        self._redirect_tracker_factory = redirect_tracker_factory\n        self._shared_tracker = redirect_tracker_factory()\n",
      'C18-D2', more=[(W, "            redirect_tracker=self._redirect_tracker_factory(),", "            redirect_tracker=self._shared_tracker,")]),
    # ---------------------------------------------------------------- D3
    B('error-site-no-increment', RU, "        if action == Actions.NORMAL:\n            item_session.set_status(Status.error)", "        if action == Actions.NORMAL:\n            item_session.set_status(Status.error, increment_try_count=False)", 'C18-D3'),
    B('error-site-no-increment-positional', RU, "        else:\n            item_session.set_status(Status.error)\n\n        return action", "        else:\n            item_session.set_status(Status.error, False)\n\n        return action", 'C18-D3'),
    B('set-status-default-false', S, "    def set_status(self, status: Status, increment_try_count: bool=True,", "    def set_status(self, status: Status, increment_try_count: bool=False,", 'C18-D3'),
    B('set-status-flag-not-forwarded', S, "            increment_try_count=increment_try_count,\n            url_result=url_result,", "            increment_try_count=False,\n            url_result=url_result,", 'C18-D3'),
    B('assertion-removed', S, "        assert not self._try_count_incremented, (url, status)\n", "", 'C18-D3'),
    B('flag-reset', S, "        self._processed = True\n\n    def add_url(", "        self._processed = True\n        self._try_count_incremented = False\n\n    def add_url(", 'C18-D3'),
    B('wrapper-drops-flag', WR, "increment_try_count=increment_try_count, url_result=url_result)", "url_result=url_result)", 'C18-D3'),
    B('check-in-guard-inverted', Q, "            if increment_try_count:\n                values[QueuedURL.try_count]", "            if not increment_try_count:\n                values[QueuedURL.try_count]", 'C18-D3'),
    B('check-in-no-increment', Q, "values[QueuedURL.try_count] = QueuedURL.try_count + 1", "values[QueuedURL.try_count] = QueuedURL.try_count", 'C18-D3'),
    B('check-out-resets-count', Q, "            url_record.status = Status.in_progress.value\n", "            url_record.status = Status.in_progress.value\n            url_record.try_count = 0\n", 'C18-D3'),
    B('direct-check-in-error', F, "        if not verdict:\n            self._item_session.skip()\n            return",
      "        if not verdict:\n            self._item_session.app_session.factory['URLTable'].check_in(self._item_session.url_record.url, Status.error, increment_try_count=False)\n            return", None),
    # ---------------------------------------------------------------- D4
    B('tries-off-by-one', UF, "            return url_table_record.try_count < self._tries", "            return url_table_record.try_count <= self._tries", 'C18-D4'),
    B('tries-inverted-switch', UF, "        if self._tries:\n            return url_table_record.try_count", "        if not self._tries:\n            return url_table_record.try_count", 'C18-D4'),
    B('tries-wrong-field', UF, "            return url_table_record.try_count < self._tries", "            return url_table_record.level < self._tries", 'C18-D4'),
    B('tries-filter-conditional', T, "        if args.tries:\n", "        if args.tries and args.recursive:\n", 'C18-D4'),
    B('tries-filter-wrong-option', T, "TriesFilter(args.tries)", "TriesFilter(args.level)", 'C18-D4'),
    B('tries-filter-not-appended', T, "            filters.append(TriesFilter(args.tries))", "            TriesFilter(args.tries)", 'C18-D4'),
    B('skipped-rows-reoffered', S, "check_out(Status.error)", "check_out(Status.skipped)", 'C18-D4'),
    B('process-without-verdict', P, "        ok = yield from self._process_robots()\n\n        if not ok:\n            return\n", "        ok = yield from self._process_robots()\n", 'C18-D4'),
    B('robots-false-verdict-ignored', P, "            if not verdict:\n                self._item_session.skip()\n                return False\n", "", 'C18-D4'),
    B('redirect-waives-any-filter', RU, "        elif is_redirect and self.is_only_span_hosts_failed(test_info):", "        elif is_redirect:", 'C18-D4'),
    B('verdict-tolerates-one-failure', UF, "            'verdict': len(failed) == 0,", "            'verdict': len(failed) <= 1,", 'C18-D4'),
    B('ftp-false-verdict-ignored', F, "        if not verdict:\n            self._item_session.skip()\n            return\n", "", 'C18-D4'),
    B('record-without-try-count', 'wpull/database/sqlmodel.py', "        record.try_count = self.try_count\n", "        record.try_count = 0\n", 'C18-D4'),
    # ---------------------------------------------------------------- benign
    N('exceeded-not-le', R, "        return self._num_redirects > self._max_redirects", "        return not self._num_redirects <= self._max_redirects"),
    N('exceeded-ge', R, "        return self._num_redirects > self._max_redirects", "        return self._num_redirects >= self._max_redirects"),
    N('exceeded-if-form', R, "        return self._num_redirects > self._max_redirects", "        if self._max_redirects < self._num_redirects:\n            return True\n        return False"),
    N('load-local', R, "        if self.next_location(raw=True):\n            self._num_redirects += 1", "        location = self.next_location(raw=True)\n\n        if not location:\n            return\n\n        self._num_redirects += 1"),
    N('redirect-renamed-locals', W, TRY_BLOCK, TRY_BLOCK.replace('url', 'target').replace('Redirect location', 'Redirect target'),
      more=[(W, "                request.url = url\n", "                request.url = target\n"),
            (W, "                request = self._request_factory(url)", "                request = self._request_factory(target)")]),
    N('limit-test-nested', W, "        if self._redirect_tracker.exceeded():\n            raise ProtocolError('Too many redirects.')\n",
      "        too_many = self._redirect_tracker.exceeded()\n\n        if not too_many:\n            _logger.debug('Within the redirect limit.')\n        else:\n            raise ProtocolError('Too many redirects.')\n"),
    N('auth-guard-ne', W, "        if self._loop_type == LoopType.authentication:\n            _logger.warning(_('Unable to authenticate.'))\n            self._next_request = None\n            self._loop_type = LoopType.normal\n            return\n\n        self._add_basic_auth_header(self._next_request)\n        self._loop_type = LoopType.authentication\n        self._hostnames_with_auth.add(self._next_request.url_info.hostname_with_port)",
      "        if self._loop_type != LoopType.authentication:\n            self._loop_type = LoopType.authentication\n            self._add_basic_auth_header(self._next_request)\n            self._hostnames_with_auth.add(self._next_request.url_info.hostname_with_port)\n        else:\n            _logger.warning(_('Unable to authenticate.'))\n            self._loop_type = LoopType.normal\n            self._next_request = None"),
    N('replay-drops-host-headers', W, "                request = self._original_request.copy()\n                request.url = url\n",
      "                request = self._original_request.copy()\n                request.url = url\n                request.fields.pop('Host', None)\n\n                if request.url_info.hostname_with_port != \\\n                        self._original_request.url_info.hostname_with_port:\n                    request.fields.pop('Authorization', None)\n                    request.fields.pop('Cookie', None)\n"),
    N('done-direct-field', W, "        return self.next_request() is None", "        return self._next_request is None"),
    N('fetch-error-stop-local', P, "            if response and response.body:\n                response.body.close()\n\n            return True, wait_time", "            if response and response.body:\n                response.body.close()\n\n            stop = True\n            _logger.debug('Stopping after error.')\n            return stop, wait_time"),
    N('exit-early-continue-form', P, "            if exit_early:\n                break\n", "            if not exit_early:\n                continue\n\n            break\n"),
    N('factory-lambda', D, "        redirect_factory = functools.partial(\n            session.factory.class_map['RedirectTracker'],\n            max_redirects=session.args.max_redirect\n        )",
      "        args = session.args\n        redirect_factory = lambda: session.factory.class_map['RedirectTracker'](max_redirects=args.max_redirect)"),
    N('session-tracker-local', W, "        return WebSession(\n            request,\n            http_client=self._http_client,\n            redirect_tracker=self._redirect_tracker_factory(),",
      "        tracker = self._redirect_tracker_factory()\n        return WebSession(\n            request,\n            http_client=self._http_client,\n            redirect_tracker=tracker,"),
    N('error-site-explicit-true', RU, "        if action == Actions.NORMAL:\n            item_session.set_status(Status.error)", "        if action == Actions.NORMAL:\n            item_session.set_status(Status.error, increment_try_count=True)"),
    N('check-in-commuted', Q, "values[QueuedURL.try_count] = QueuedURL.try_count + 1", "values[QueuedURL.try_count] = 1 + QueuedURL.try_count"),
    N('tries-early-return', UF, "        if self._tries:\n            return url_table_record.try_count < self._tries\n        else:\n            return True",
      "        if not self._tries:\n            return True\n\n        return self._tries > url_table_record.try_count"),
    N('tries-wiring-local', T, "        if args.tries:\n            filters.append(TriesFilter(args.tries))", "        tries = args.tries\n\n        if tries:\n            _logger.debug('Tries limit enabled.')\n            filters.append(TriesFilter(max_tries=tries))"),
    N('process-nested-gate', P, "        if not ok:\n            return\n\n        self._processing_rule.add_extra_urls(self._item_session)\n\n        self._web_client_session = self._processor.web_client.session(\n            self._new_initial_request()\n        )\n\n        with self._web_client_session:\n            yield from self._process_loop()\n",
      "        if ok:\n            self._processing_rule.add_extra_urls(self._item_session)\n\n            self._web_client_session = self._processor.web_client.session(\n                self._new_initial_request()\n            )\n\n            with self._web_client_session:\n                yield from self._process_loop()\n        else:\n            return\n"),
    N('verdict-not-failed', UF, "            'verdict': len(failed) == 0,", "            'verdict': not failed,"),
    N('handler-widened', W, "        except ValueError as error:\n            raise ProtocolError('Invalid redirect location.') from error",
      "        except (ValueError, TypeError) as error:\n            _logger.debug('Bad redirect location.')\n            raise ProtocolError('Invalid redirect location.') from error"),
    N('limit-test-in-try-finally', W, "        if self._redirect_tracker.exceeded():\n            raise ProtocolError('Too many redirects.')\n",
      "        try:\n            if self._redirect_tracker.exceeded():\n                raise ProtocolError('Too many redirects.')\n        finally:\n            _logger.debug('Checked the redirect limit.')\n"),
    N('response-logging-and-helper', W, "        self._redirect_tracker.load(response)\n\n        if self._redirect_tracker.is_redirect():",
      "        tracker = self._redirect_tracker\n        tracker.load(response)\n        _logger.debug('Loaded response into tracker.')\n\n        if self._redirect_tracker.is_redirect():"),
    N('robots-loop-logging', RB, "                        self._accept_as_blank(url_info)\n\n                        return\n\n            status_code = response.status_code",
      "                        _logger.debug(__('robots.txt fetch failed'))\n                        self._accept_as_blank(url_info)\n                        return None\n\n            status_code = response.status_code"),
    N('set-status-reordered', S, "        if increment_try_count:\n            self._try_count_incremented = True\n\n        _logger.debug(__('Marking URL {0} status {1}.', url, status))\n",
      "        _logger.debug(__('Marking URL {0} status {1}.', url, status))\n\n        if increment_try_count:\n            self._try_count_incremented = True\n"),
    B('queue-insert-or-replace', Q, "insert(QueuedURL).prefix_with('OR IGNORE')", "insert(QueuedURL).prefix_with('OR REPLACE')", 'C18-D3'),
    B('links-replace-rows', RU, "                item_session.add_child_url(url_info.url)", "                item_session.add_child_url(url_info.url, replace=True)", 'C18-D3'),
    B('replace-by-default', S, "                      replace: bool=False):", "                      replace: bool=True):", 'C18-D3'),
]
