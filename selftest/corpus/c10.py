U = 'wpull/url.py'


def B(i, old, new, expect=None, rel=U):
    return {'id': 'C10/' + i, 'prop': 'C10', 'kind': 'break', 'edits': [(rel, old, new)], 'expect': expect}


def N(i, old, new, rel=U):
    return {'id': 'C10/benign-' + i, 'prop': 'C10', 'kind': 'benign', 'edits': [(rel, old, new)]}


ENTRIES = [
    B('regress-hexcase', "r'%[a-fA-F0-9][a-fA-F0-9]'", "r'%[a-f0-9][a-f0-9]'", 'C10-D4'),
    B('hex-second-pos', "r'%[a-fA-F0-9][a-fA-F0-9]'", "r'%[a-fA-F0-9][a-f0-9]'", 'C10-D4'),
    B('no-scheme-lower', "        scheme = scheme.lower()\n", "", 'C10-D1'),
    B('no-flatten-slashes', "flatten_path(path, flatten_slashes=True)", "flatten_path(path)", 'C10-D1'),
    B('no-flatten', "percent_encode(flatten_path(path, flatten_slashes=True), encoding=encoding)", "percent_encode(path, encoding=encoding)", 'C10-D1'),
    B('encode-before-flatten', "path = percent_encode(flatten_path(path, flatten_slashes=True), encoding=encoding)",
      "path = flatten_path(percent_encode(path, encoding=encoding), flatten_slashes=True)", 'C10-D1'),
    B('port-inverted', "if RELATIVE_SCHEME_DEFAULT_PORTS[self.scheme] != self.port:\n                parts.append",
      "if RELATIVE_SCHEME_DEFAULT_PORTS[self.scheme] == self.port:\n                parts.append", 'C10-D2'),
    B('port-always', "            if RELATIVE_SCHEME_DEFAULT_PORTS[self.scheme] != self.port:\n                parts.append(':{}'.format(self.port))",
      "            if self.port:\n                parts.append(':{}'.format(self.port))", 'C10-D2'),
    B('fragment-appended', "            self._url = ''.join(parts)", "            if self.fragment:\n                parts.append('#' + self.fragment)\n            self._url = ''.join(parts)", 'C10-D2'),
    B('space-not-encoded', "DEFAULT_ENCODE_SET = frozenset(b' \"#<>?`')", "DEFAULT_ENCODE_SET = frozenset(b'\"#<>?`')", 'C10-D3'),
    B('high-bytes', "if char < 0x20 or char > 0x7E or char in self.encode_set:", "if char < 0x20 or char > 0xFE or char in self.encode_set:", 'C10-D3'),
    B('lower-hex', "result = '%{:02X}'.format(char)", "result = '%{:02x}'.format(char)", 'C10-D3'),
    B('c0-weak', "if char < 0x20 or char > 0x7E", "if char <= 0x10 or char > 0x7E", 'C10-D3'),
    B('dotdot-kept', "        elif part != '..':\n            new_parts.append(part)", "        elif part != '...':\n            new_parts.append(part)", 'C10-D5'),
    B('dot-kept', "if part == '.' or (flatten_slashes and not part):", "if flatten_slashes and not part:", 'C10-D5'),
    B('idna-after-check',
      "            if any(char in new_hostname for char in FORBIDDEN_HOSTNAME_CHARS):\n                raise ValueError('Invalid hostname: {}'\n                                 .format(ascii(hostname)))\n",
      "            if any(char in new_hostname for char in FORBIDDEN_HOSTNAME_CHARS):\n                raise ValueError('Invalid hostname: {}'\n                                 .format(ascii(hostname)))\n\n            new_hostname = normalize_hostname(new_hostname)\n", 'C10-D1'),
    B('regress-ipv4-after-mapping', "            # A name may only become a numeric address through the mapping\n            # and lower-casing above; it must not wait for a second\n            # normalization to be recognised as one.\n            try:\n                new_hostname = normalize_ipv4_address(new_hostname)\n            except ValueError:\n                pass\n", "", 'C10-D1'),
    B('host-not-lower', "hostname.encode('idna').decode('ascii').lower()", "hostname.encode('idna').decode('ascii')", 'C10-D1'),
    B('ipv6-raw', "hostname = ipaddress.IPv6Address(hostname[1:-1]).compressed", "ipaddress.IPv6Address(hostname[1:-1])\n        hostname = hostname[1:-1]", 'C10-D1'),
    B('query-no-upper', "    path = percent_encode_plus(text, encoding=encoding)\n    return uppercase_percent_encoding(path)", "    path = percent_encode_plus(text, encoding=encoding)\n    return path", 'C10-D1'),
    B('port-range', "if port < 0 or port > 65535:", "if port < 0:", 'C10-D1'),
    B('c0-not-rejected', "        if frozenset(url) & C0_CONTROL_SET:\n            raise ValueError('URL contains control codes: {}'.format(ascii(url)))\n", "", 'C10-D3'),
    B('fast-path-wrong', "    if '%' not in text:\n        return text\n\n    return re.sub(", "    if '%2' not in text:\n        return text\n\n    return re.sub(", 'C10-D4'),
    N('hex-ignorecase', "    return re.sub(\n        r'%[a-fA-F0-9][a-fA-F0-9]',\n        lambda match: match.group(0).upper(),\n        text)",
      "    return re.sub(\n        r'%[a-f0-9][a-f0-9]',\n        lambda match: match.group(0).upper(),\n        text, flags=re.IGNORECASE)"),
    N('hex-class', "r'%[a-fA-F0-9][a-fA-F0-9]'", "r'%[0-9A-Fa-f][0-9a-fA-F]'"),
    N('missing-reorder', "if char < 0x20 or char > 0x7E or char in self.encode_set:", "if char in self.encode_set or char > 0x7E or char < 0x20:"),
    N('missing-le', "if char < 0x20 or char > 0x7E or char in self.encode_set:", "if char <= 0x1F or char >= 0x7F or char in self.encode_set:"),
    N('flatten-nested', "        if part == '.' or (flatten_slashes and not part):\n            continue\n        elif part != '..':\n            new_parts.append(part)\n        elif new_parts:\n            new_parts.pop()",
      "        if part == '.':\n            continue\n        if flatten_slashes and not part:\n            continue\n        if part == '..':\n            if new_parts:\n                new_parts.pop()\n        else:\n            new_parts.append(part)"),
    N('normalize-path-inline', "    path = percent_encode(flatten_path(path, flatten_slashes=True), encoding=encoding)\n    return uppercase_percent_encoding(path)",
      "    flat = flatten_path(path, flatten_slashes=True)\n    encoded = percent_encode(flat, encoding=encoding)\n    return uppercase_percent_encoding(encoded)"),
]

ENTRIES += [
    B('forbidden-host-chars-no-slash', "FORBIDDEN_HOSTNAME_CHARS = frozenset('#%/:?@[\\\\] ')", "FORBIDDEN_HOSTNAME_CHARS = frozenset('#%:?@[\\\\] ')", 'C10-D1'),
    B('forbidden-host-chars-authority-only', "FORBIDDEN_HOSTNAME_CHARS = frozenset('#%/:?@[\\\\] ')", "FORBIDDEN_HOSTNAME_CHARS = frozenset('%:@[\\\\] ')", 'C10-D1'),
    N('forbidden-host-chars-extended', "FORBIDDEN_HOSTNAME_CHARS = frozenset('#%/:?@[\\\\] ')", "FORBIDDEN_HOSTNAME_CHARS = frozenset(' #%/:?@[\\\\]^|')"),
]

ENTRIES += [
    B('ipv4-octet-bound-off-by-one', "    elif num_decimals == 3:\n", "    elif num_decimals == 3:\n        if any(parse_ipv4_int(part) >= 255 for part in address.split('.')):\n            raise ValueError('IPv4 address part out of range')\n", 'C10-D1'),
    N('ipv4-octet-bound-exact', "    elif num_decimals == 3:\n", "    elif num_decimals == 3:\n        if any(parse_ipv4_int(part) > 255 for part in address.split('.')):\n            raise ValueError('IPv4 address part out of range')\n"),
]

ENTRIES += [
    {'id': 'C10/benign-escape-pattern-compiled', 'prop': 'C10', 'kind': 'benign', 'edits': [
        ('wpull/url.py', "def uppercase_percent_encoding(text):", "_ESCAPE_PATTERN = re.compile(r'%[0-9a-fA-F]{2}')\n\n\ndef uppercase_percent_encoding(text):"),
        ('wpull/url.py', "    return re.sub(\n        r'%[a-fA-F0-9][a-fA-F0-9]',\n        lambda match", "    return _ESCAPE_PATTERN.sub(\n        lambda match")]},
]

ENTRIES += [
    B('regress-probe-three-characters', "        if PRINTABLE_ASCII.encode(encoding) != PRINTABLE_ASCII.encode('ascii'):", "        if 'a+/'.encode(encoding) != b'a+/':", 'C10-D1'),
    B('probe-without-tilde', "PRINTABLE_ASCII = ''.join(chr(i) for i in range(0x20, 0x7f))", "PRINTABLE_ASCII = ''.join(chr(i) for i in range(0x20, 0x7e))", 'C10-D1'),
    N('probe-literal', "PRINTABLE_ASCII = ''.join(chr(i) for i in range(0x20, 0x7f))", "PRINTABLE_ASCII = ' !\"#$%&\\'()*+,-./0123456789:;<=>?@ABCDEFGHIJKLMNOPQRSTUVWXYZ[\\\\]^_`abcdefghijklmnopqrstuvwxyz{|}~'"),
]

_PE_NEW_HEAD = "    if NON_ASCII_PATTERN.search(text) is None:\n        return ''.join([mapping(char) for char in text.encode(encoding)])\n"
ENTRIES += [
    {'id': 'C10/regress-map-over-all-bytes', 'prop': 'C10', 'kind': 'break', 'expect': 'C10-D3', 'edits': [('wpull/url.py', _PE_NEW_HEAD,
      "    if True:\n        return ''.join([mapping(char) for char in text.encode(encoding)])\n")]},
    {'id': 'C10/benign-ascii-test-by-encode', 'prop': 'C10', 'kind': 'benign', 'edits': [('wpull/url.py', _PE_NEW_HEAD,
      "    if all(ord(char) < 128 for char in text):\n        return ''.join([mapping(char) for char in text.encode(encoding)])\n")]},
]

ENTRIES += [
    {'id': 'C10/probe-only-for-non-ascii-text', 'prop': 'C10', 'kind': 'break', 'expect': 'C10-D1', 'edits': [('wpull/url.py',
      "        if PRINTABLE_ASCII.encode(encoding) != PRINTABLE_ASCII.encode('ascii'):", "        if NON_ASCII_PATTERN.search(url) is not None and PRINTABLE_ASCII.encode(encoding) != PRINTABLE_ASCII.encode('ascii'):")]},
    {'id': 'C10/benign-probe-skipped-for-utf8', 'prop': 'C10', 'kind': 'benign', 'edits': [('wpull/url.py',
      "        if PRINTABLE_ASCII.encode(encoding) != PRINTABLE_ASCII.encode('ascii'):", "        if PRINTABLE_ASCII.encode(encoding) != PRINTABLE_ASCII.encode('us-ascii'):")]},
]
