ST = 'wpull/protocol/http/stream.py'
CH = 'wpull/protocol/http/chunked.py'
FS = 'wpull/protocol/ftp/stream.py'
FR = 'wpull/protocol/ftp/request.py'
LS = 'wpull/protocol/ftp/ls/listing.py'
PF = 'wpull/processor/ftp.py'
PW = 'wpull/processor/web.py'
PB = 'wpull/processor/base.py'
RQ = 'wpull/protocol/http/request.py'


def B(i, old, new, expect=None, rel=ST):
    return {'id': 'C09/' + i, 'prop': 'C09', 'kind': 'break', 'edits': [(rel, old, new)], 'expect': expect}


def N(i, old, new, rel=ST):
    return {'id': 'C09/benign-' + i, 'prop': 'C09', 'kind': 'benign', 'edits': [(rel, old, new)]}


ENTRIES = [
    B('regress-trailer-strict', "response.fields.parse(trailer_data, strict=False)", "response.fields.parse(trailer_data)", 'C09-D1'),
    B('regress-chunk-readline', "        try:\n            newline_data = yield from self._connection.readline()\n        except ValueError as error:\n            raise ProtocolError(\n                'Invalid chunk terminator: {0}'.format(error)) from error",
      "        newline_data = yield from self._connection.readline()", 'C09-D3', CH),
    B('regress-ftp-readline', "            try:\n                line = yield from self._connection.readline()\n            except ValueError as error:\n                raise ProtocolError(\n                    'Invalid reply: {0}'.format(error)) from error",
      "            line = yield from self._connection.readline()", 'C09-D3', FS),
    B('regress-reply-assert', "                if self.code is not None:\n                    # For example two final lines separated by a bare CR\n                    raise ProtocolError('Reply has more than one final line.')\n", "                assert self.code is None\n", 'C09-D1', FR),
    B('regress-msdos', "            if len(fields) < 4:\n                raise ListingError(\n                    'Failed to parse line {}'.format(repr(line)))\n", "", 'C09-D1', LS),
    B('regress-parent-listing', "            try:\n                is_file = yield from self._prepare_request_file_vs_dir(request)\n            except REMOTE_ERRORS as error:", "            try:\n                is_file = yield from self._prepare_request_file_vs_dir(request)\n            except HookPreResponseBreak as error:", 'C09-D2', PF),
    B('regress-perm-listing', "        try:\n            files = yield from self._fetch_parent_path(request)\n        except REMOTE_ERRORS as error:\n            # The file itself was fetched; permissions are best effort.\n            _logger.debug('Could not list parent directory: {}', error)\n            return\n",
      "        files = yield from self._fetch_parent_path(request)\n", 'C09-D2', PF),
    B('remote-errors-shortened', "    ProtocolError,\n", "", 'C09-D5', PB),
    B('header-readline-unguarded', "            try:\n                data = yield from self._connection.readline()\n            except ValueError as error:\n                raise ProtocolError(\n                    'Invalid header: {0}'.format(error)) from error",
      "            data = yield from self._connection.readline()", 'C09-D3'),
    B('zlib-unwrapped', "            try:\n                return self._decompressor.decompress(data)\n            except zlib.error as error:\n                raise ProtocolError(\n                    'zlib error: {0}.'.format(error)\n                ) from error",
      "            return self._decompressor.decompress(data)", 'C09-D3'),
    B('fetch-one-narrow', "        except REMOTE_ERRORS as error:\n            self._log_error(request, error)\n\n            self._result_rule.handle_error(self._item_session, error)\n            wait_time = self._result_rule.get_wait_time(\n                self._item_session, error=error\n            )\n\n            if request.body:",
      "        except NetworkError as error:\n            self._log_error(request, error)\n\n            self._result_rule.handle_error(self._item_session, error)\n            wait_time = self._result_rule.get_wait_time(\n                self._item_session, error=error\n            )\n\n            if request.body:", 'C09-D2', PW),
    B('new-assert-on-data', "            header_lines.append(data)\n            assert data.endswith(b'\\n')\n", "            header_lines.append(data)\n            assert b':' in data or not header_lines[1:]\n"),
    B('status-line-valueerror', "        raise ProtocolError(\n            'Error parsing status line {line}\".'.format(line=ascii(data))\n        )", "        raise ValueError(\n            'Error parsing status line {line}\".'.format(line=ascii(data))\n        )", 'C09-D1', RQ),
    B('status-code-unbounded', "br'(HTTP/\\d+\\.\\d+)[ \\t]+([0-9]{1,3})[ \\t]*([^\\r\\n]*)'", "br'(HTTP/\\d+\\.\\d+)[ \\t]+([0-9a-f]{1,3})[ \\t]*([^\\r\\n]*)'", 'C09-D1', RQ),
    B('content-length-int', "        try:\n            body_size = int(response.fields['Content-Length'])\n\n            if body_size < 0:\n                raise ValueError('Content length cannot be negative.')\n\n        except ValueError as error:",
      "        try:\n            body_size = int(response.fields['Content-Length'])\n\n            if body_size < 0:\n                raise ValueError('Content length cannot be negative.')\n\n        except KeyError as error:", 'C09-D1'),
    B('chunk-size-unguarded', "        try:\n            chunk_size = int(chunk_size_hex.split(b';', 1)[0].strip(), 16)\n        except ValueError as error:\n            raise ProtocolError(\n                'Invalid chunk size: {0}'.format(error)) from error", "        chunk_size = int(chunk_size_hex.split(b';', 1)[0].strip(), 16)", 'C09-D1', CH),
    B('listing-handler-narrow', "except (ListingError, ValueError) as error:", "except ListingError as error:", 'C09-D1', 'wpull/protocol/ftp/client.py'),
    B('robots-outside-handler', "        try:\n            self._item_session.request = request = self._new_initial_request(with_body=False)\n            verdict, reason = (yield from self._should_fetch_reason_with_robots(\n                request))\n        except REMOTE_ERRORS as error:",
      "        try:\n            self._item_session.request = request = self._new_initial_request(with_body=False)\n            verdict, reason = (yield from self._should_fetch_reason_with_robots(\n                request))\n        except NetworkError as error:", 'C09-D2', PW),
    N('handler-exception', "            except ValueError as error:\n                raise ProtocolError(\n                    'Invalid header: {0}'.format(error)) from error", "            except (ValueError, KeyError) as error:\n                raise ProtocolError(\n                    'Invalid header: {0}'.format(error)) from error"),
    N('remote-errors-more', "    ProtocolError,\n", "    ProtocolError,\n    TimeoutError,\n", PB),
    N('guarded-index', "            if len(fields) < 4:\n                raise ListingError(\n                    'Failed to parse line {}'.format(repr(line)))\n", "            if len(fields) != 4 and len(fields) < 4:\n                raise ListingError(\n                    'Failed to parse line {}'.format(repr(line)))\n" if False else "            if len(fields) < 4:\n                raise ListingError('Failed to parse line {!r}'.format(line))\n", LS),
    N('protocol-subclass', "                    raise ProtocolError('Reply has more than one final line.')", "                    raise FTPServerError('Reply has more than one final line.', 500)" if False else "                    raise ProtocolError('More than one final line in reply.')", FR),
]

# ---- defects found in the fourth review round (scrapers, writer, PASV) and their neighbours
STR = 'wpull/string.py'
SM = 'wpull/scraper/sitemap.py'
WR = 'wpull/writer.py'
FU = 'wpull/protocol/ftp/util.py'
CSS = 'wpull/scraper/css.py'
JS = 'wpull/scraper/javascript.py'
HT = 'wpull/scraper/html.py'
CK = 'wpull/cookie.py'
ENTRIES += [
    B('regress-codec-lookup', "    except LookupError:\n        # A registered codec that is not a text encoding (hex, zlib, ...)\n        return False\n", "", 'C09-D1', STR),
    B('regress-sitemap-gzip', "        except (UnicodeError, EOFError, OSError, zlib.error,\n                self._html_parser.parser_error) as error:", "        except (UnicodeError, self._html_parser.parser_error) as error:", 'C09-D1', SM),
    B('sitemap-gzip-eof-only', "        except (UnicodeError, EOFError, OSError, zlib.error,\n                self._html_parser.parser_error) as error:", "        except (UnicodeError, EOFError, zlib.error,\n                self._html_parser.parser_error) as error:", 'C09-D1', SM),
    B('regress-last-modified-none', "        if not last_modified:\n            # parsedate() returns None for text that is not a date\n            return\n\n", "", 'C09-D1', WR),
    B('regress-last-modified-range', "        try:\n            last_modified = time.mktime(last_modified)\n        except (OverflowError, ValueError):\n            _logger.exception('Failed to convert date.')\n            return\n", "        last_modified = time.mktime(last_modified)\n", 'C09-D1', WR),
    B('regress-pasv-range', "        if any(int(number) > 255 for number in match.groups()):\n            raise ValueError('Address out of range')\n\n", "", 'C09-D7', FU),
    B('pasv-range-port-only', "        if any(int(number) > 255 for number in match.groups()):", "        if int(match.group(1)) > 255 or int(match.group(2)) > 255:", 'C09-D7', FU),
    B('pasv-range-check-after-return-value', "        if any(int(number) > 255 for number in match.groups()):\n            raise ValueError('Address out of range')\n\n", "        if any(int(number) > 999 for number in match.groups()):\n            raise ValueError('Address out of range')\n\n", 'C09-D7', FU),
    B('css-handler-narrowed', "        except UnicodeError as error:", "        except UnicodeDecodeError as error:", 'C09-D1', CSS),
    B('js-handler-narrowed', "        except UnicodeError as error:", "        except UnicodeDecodeError as error:", 'C09-D1', JS),
    B('scraper-unvalidated-charset', "        encoding = self._encoding_override or \\\n            detect_response_encoding(response)\n", "        encoding = self._encoding_override or \\\n            get_heading_encoding(response) or detect_response_encoding(response)\n", 'C09-D1', CSS),
    B('cookie-limit-lookup-unguarded', "            try:\n                cookies[cookie.domain][cookie.path][cookie.name]\n            except KeyError:\n                return False", "            if cookie.name not in cookies[cookie.domain][cookie.path]:\n                return False", 'C09-D1', CK),
    B('unix-perm-length-guard-weakened', "    if len(text) != 9:\n        return 0", "    if len(text) > 10:\n        return 0", 'C09-D1', LS),
    N('pasv-range-max-form', "        if any(int(number) > 255 for number in match.groups()):", "        if max(int(number) for number in match.groups()) >= 256:", FU),
    N('pasv-range-numbers-local', "        if any(int(number) > 255 for number in match.groups()):\n            raise ValueError('Address out of range')\n", "        numbers = [int(number) for number in match.groups()]\n\n        if max(numbers) > 255:\n            raise ValueError('Address out of range')\n", FU),
    N('last-modified-single-try', "        if not last_modified:\n            # parsedate() returns None for text that is not a date\n            return\n\n        try:\n            last_modified = time.mktime(last_modified)\n        except (OverflowError, ValueError):",
      "        if last_modified is None:\n            return\n\n        try:\n            last_modified = time.mktime(last_modified)\n        except (OverflowError, ValueError, TypeError):", WR),
    N('sitemap-handler-exception-order', "        except (UnicodeError, EOFError, OSError, zlib.error,\n                self._html_parser.parser_error) as error:", "        except (OSError, EOFError, zlib.error, UnicodeError,\n                self._html_parser.parser_error) as error:", SM),
    N('codec-lookup-combined-handler', "    except LookupError:\n        # A registered codec that is not a text encoding (hex, zlib, ...)\n        return False\n    except UnicodeError:", "    except LookupError as error:\n        _ = error\n        return False\n    except UnicodeError:", STR),
    N('unix-perm-length-guard-lt', "    if len(text) != 9:\n        return 0", "    if len(text) < 9 or len(text) > 9:\n        return 0", LS),
]

PA = 'wpull/path.py'
ENTRIES += [
    B('regress-windows-trailing-char', "            new_filename = '{0}%{1:02X}'.format(\n                new_filename[:-1], ord(new_filename[-1])\n            )", "            new_filename = '{0}{1:02X}'.format(\n                new_filename[:-1], new_filename[-1]\n            )", 'C09-D1', PA),
    B('content-disposition-empty-group', "    match = re.search(r'filename\\s*=\\s*(.+)', text, re.IGNORECASE)", "    match = re.search(r'filename\\s*=\\s*(.*)', text, re.IGNORECASE)", 'C09-D1', PA),
    N('windows-trailing-char-percent-format', "            new_filename = '{0}%{1:02X}'.format(\n                new_filename[:-1], ord(new_filename[-1])\n            )", "            new_filename = new_filename[:-1] + '%%%02X' % ord(new_filename[-1])", PA),
]

ENTRIES += [
    B('regress-symlink-unhandled', "            try:\n                os.symlink(link_target, symlink_path)\n            except (OSError, ValueError) as error:\n                # The name comes from the listing: listed twice, already\n                # there from an earlier run, naming a missing directory, or\n                # containing a NUL.\n                _logger.warning(\n                    _('Could not create symbolic link {symlink_path}: {error}'),\n                    symlink_path=symlink_path, error=error\n                )\n                return\n",
      "            os.symlink(link_target, symlink_path)\n", 'C09-D1', 'wpull/processor/ftp.py'),
    B('symlink-handler-too-narrow', "            except (OSError, ValueError) as error:\n                # The name comes from the listing", "            except FileExistsError as error:\n                # The name comes from the listing", 'C09-D1', 'wpull/processor/ftp.py'),
    B('regress-symlink-nul', "            except (OSError, ValueError) as error:\n                # The name comes from the listing", "            except OSError as error:\n                # The name comes from the listing", 'C09-D1', 'wpull/processor/ftp.py'),
    B('regress-continue-refusal-is-ioerror', "        raise ServerError(\n            _('Server not able to continue", "        raise IOError(\n            _('Server not able to continue", 'C09-D1', 'wpull/writer.py'),
]

FC = 'wpull/protocol/ftp/client.py'
ENTRIES += [
    B('regress-end-control-without-begin', "        if self._control_connection and self._control_begun:", "        if self._control_connection:", 'C09-D8', FC),
    B('control-begun-set-too-early', "        self.event_dispatcher.notify(self.Event.begin_control, request, connection_reused=connection_reused)\n        self._control_begun = True\n",
      "        self._control_begun = True\n        self.event_dispatcher.notify(self.Event.begin_control, request, connection_reused=connection_reused)\n", 'C09-D8', FC),
    N('control-begun-other-spelling', "        if self._control_connection and self._control_begun:", "        if self._control_begun and self._control_connection is not None:", FC),
]

import os as _os
_PD = _os.path.join(_os.path.dirname(_os.path.dirname(_os.path.abspath(__file__))), 'patches')
ENTRIES += [
    # the retargeting of a repeated request extracted into a helper that is still called inside the try: every property's check is silent
    {'id': 'C09/benign-retarget-helper-in-try', 'prop': 'C09', 'kind': 'benign', 'patch': _os.path.join(_PD, 'benign_retarget_helper_in_try.diff')},
    {'id': 'C16/benign-retarget-helper-in-try', 'prop': 'C16', 'kind': 'benign', 'patch': _os.path.join(_PD, 'benign_retarget_helper_in_try.diff')},
    {'id': 'C18/benign-retarget-helper-in-try', 'prop': 'C18', 'kind': 'benign', 'patch': _os.path.join(_PD, 'benign_retarget_helper_in_try.diff')},
    {'id': 'C11/benign-retarget-helper-in-try', 'prop': 'C11', 'kind': 'benign', 'patch': _os.path.join(_PD, 'benign_retarget_helper_in_try.diff')},
    B('recorder-control-encode-strict', "        self._control_record.block_file.write(\n            text.encode('utf-8', errors='surrogateescape')\n        )\n\n        if not data.endswith(b'\\n'):\n            self._control_record.block_file.write(b'\\n')\n\n    def control_receive_data",
      "        self._control_record.block_file.write(text.encode('utf-8'))\n\n        if not data.endswith(b'\\n'):\n            self._control_record.block_file.write(b'\\n')\n\n    def control_receive_data", 'C09-D1', 'wpull/warc/recorder.py'),
]

ENTRIES += [
    B('regress-handler-body-none', "            if response and response.body:\n                response.body.close()\n\n            return True, wait_time\n",
      "            if response:\n                response.body.close()\n\n            return True, wait_time\n", 'C09-D2', 'wpull/processor/web.py'),
    N('handler-body-getattr', "            if response and response.body:\n                response.body.close()\n\n            return True, wait_time\n",
      "            if response:\n                if response.body:\n                    response.body.close()\n\n            return True, wait_time\n", 'wpull/processor/web.py'),
    B('regress-robots-redirect-scheme', "                    if session.next_request().url_info.scheme \\\n                            not in ('http', 'https'):\n", "                    if False:\n", 'C09-D2', 'wpull/protocol/http/robots.py'),
]

ENTRIES += [
    B('ftp-path-unquote-surrogateescape', "            parts = [urllib.parse.unquote(part) for part in parts]\n", "            parts = [urllib.parse.unquote(part, errors='surrogateescape')\n                     for part in parts]\n", 'C09-D3', 'wpull/path.py'),
]

ENTRIES += [
    B('regress-symlink-target-untested', "        if not link_target:\n            # A listing can name a link without telling where it points\n            # (MLSD 'type=symlink; name').\n            _logger.debug('No target for symlink {}.', link_name)\n            return\n\n", "", 'C09-D2', 'wpull/processor/ftp.py'),
    N('symlink-typeerror-handled', "            except (OSError, ValueError) as error:\n                # The name comes from the listing", "            except (OSError, ValueError, TypeError) as error:\n                # The name comes from the listing", 'wpull/processor/ftp.py'),
]

ENTRIES += [
    B('strerror-hoisted', "            self.close()\n            if isinstance(error, NetworkError):\n                raise\n", "            self.close()\n            error_message = os.strerror(error.errno)\n            if isinstance(error, NetworkError):\n                raise\n", 'C09-D3', 'wpull/network/connection.py'),
]
