"""Self-test corpus for C17 (FTP command framing / reply assembly).

All `old` texts are written against the tree *with* the CR/LF repair of
planned-fixes/0008 in place (Command.to_bytes rejects line breaks), because a benign
edit can only be silent on a tree that satisfies the property.  While /repo does not
carry that repair yet, every entry first applies it (PRE) so the corpus is usable
before and after the fix lands.  No `old` text touches lines changed by the planned
patches 0015 / 0016.
"""
import os

R = 'wpull/protocol/ftp/request.py'
S = 'wpull/protocol/ftp/stream.py'
C = 'wpull/protocol/ftp/command.py'
L = 'wpull/protocol/ftp/client.py'
U = 'wpull/protocol/ftp/util.py'

CHECK = ("        if '\\r' in self.argument or '\\n' in self.argument:\n"
         "            # For example a percent-encoded CR LF in a URL path or password\n"
         "            raise ProtocolError('Command argument contains a line break.')\n"
         "\n")
UNFIXED = "    def to_bytes(self):\n        return '{0} {1}\\r\\n'.format(self.name, self.argument).encode(\n"
FIXED = "    def to_bytes(self):\n" + CHECK + "        return '{0} {1}\\r\\n'.format(self.name, self.argument).encode(\n"

try:
    with open(os.path.join(os.environ.get('WPULL_ROOT', '/repo'), R), encoding='utf-8') as _fh:
        _HAS_FIX = UNFIXED not in _fh.read()
except OSError:
    _HAS_FIX = True
PRE = [] if _HAS_FIX else [(R, UNFIXED, FIXED)]


def B(i, rel, old, new, expect=None, more=()):
    return {'id': 'C17/' + i, 'prop': 'C17', 'kind': 'break', 'edits': PRE + [(rel, old, new)] + list(more), 'expect': expect}


def N(i, rel, old, new, more=()):
    return {'id': 'C17/benign-' + i, 'prop': 'C17', 'kind': 'benign', 'edits': PRE + [(rel, old, new)] + list(more)}


IF_CRLF = "        if '\\r' in self.argument or '\\n' in self.argument:\n"
RAISE = "            raise ProtocolError('Command argument contains a line break.')\n"
LINE = "        return '{0} {1}\\r\\n'.format(self.name, self.argument).encode(\n            'utf-8', errors='surrogateescape')\n"
END_STREAM = ("        reply = yield from self._control_stream.read_reply()\n\n"
              "        self.raise_if_not_match(\n            'End stream',\n            ReplyCodes.closing_data_connection,\n            reply\n        )\n")
TIMEOUT = ("        except asyncio.TimeoutError as error:\n            raise DurationTimeout(\n"
           "                'Did not finish reading after {} seconds.'\n                .format(duration_timeout)\n            ) from error\n")

ENTRIES = [
    # ------------------------------------------------------------------ D1
    B('regress-no-crlf-check', R, CHECK, "", 'C17-D1'),
    B('check-cr-only', R, IF_CRLF, "        if '\\r' in self.argument:\n", 'C17-D1'),
    B('check-and-instead-of-or', R, IF_CRLF, "        if '\\r' in self.argument and '\\n' in self.argument:\n", 'C17-D1'),
    B('check-does-not-raise', R, RAISE, "            pass\n", 'C17-D1'),
    B('check-on-the-name', R, IF_CRLF, "        if '\\r' in self.name or '\\n' in self.name:\n", 'C17-D1'),
    B('check-on-stripped-copy', R, IF_CRLF,
      "        argument = self.argument.strip()\n\n        if '\\r' in argument or '\\n' in argument:\n", 'C17-D1'),
    B('check-swallowed', R, IF_CRLF + "            # For example a percent-encoded CR LF in a URL path or password\n" + RAISE,
      "        try:\n            if '\\r' in self.argument or '\\n' in self.argument:\n"
      "                raise ProtocolError('Command argument contains a line break.')\n"
      "        except ProtocolError:\n            pass\n", 'C17-D1'),
    B('check-unhandled-error', R, RAISE, "            raise ValueError('Command argument contains a line break.')\n", 'C17-D1'),
    B('check-multichar-substring', R, IF_CRLF, "        if '\\r\\n' in self.argument:\n", 'C17-D1'),
    B('bypass-command-object', C, "        yield from self._control_stream.write_command(Command('USER', username))\n",
      "        yield from self._control_stream._connection.write(\n            ('USER ' + username + '\\r\\n').encode('utf-8'))\n", 'C17-D1'),
    B('text-in-name-slot', C, "Command('SIZE', filename)", "Command('SIZE ' + filename)", 'C17-D1'),
    # ------------------------------------------------------------------ D2
    B('lf-terminator', R, "return '{0} {1}\\r\\n'.format(self.name, self.argument)", "return '{0} {1}\\n'.format(self.name, self.argument)", 'C17-D2'),
    B('double-crlf', R, "return '{0} {1}\\r\\n'.format(self.name, self.argument)", "return '{0} {1}\\r\\n\\r\\n'.format(self.name, self.argument)", 'C17-D2'),
    B('repr-argument', R, "return '{0} {1}\\r\\n'.format(self.name, self.argument)", "return '{0} {1!r}\\r\\n'.format(self.name, self.argument)", 'C17-D2'),
    B('swapped-fields', R, "'{0} {1}\\r\\n'.format(self.name, self.argument)", "'{0} {1}\\r\\n'.format(self.argument, self.name)", 'C17-D2'),
    B('utf16-encoding', R, "self.argument).encode(\n            'utf-8'", "self.argument).encode(\n            'utf-16'", 'C17-D2'),
    B('extra-write', S, "        yield from self._connection.write(data)\n",
      "        yield from self._connection.write(data)\n        yield from self._connection.write(b'\\r\\n')\n", 'C17-D2'),
    B('write-not-awaited', S, "        yield from self._connection.write(data)\n", "        self._connection.write(data)\n", 'C17-D2'),
    # ------------------------------------------------------------------ D3
    B('reply-read-4096', S, "yield from self._connection.readline()", "yield from self._connection.read(4096)", 'C17-D3'),
    B('lf-check-weakened', S, "            if line[-1:] != b'\\n':\n", "            if not line:\n", 'C17-D3'),
    B('lf-check-off-by-one', S, "            if line[-1:] != b'\\n':\n", "            if line[-2:] != b'\\n':\n", 'C17-D3'),
    B('loop-left-after-first-line', S, "            if reply.code is not None:\n                break\n", "            break\n", 'C17-D3'),
    B('loop-test-inverted', S, "            if reply.code is not None:\n", "            if reply.code is None:\n", 'C17-D3'),
    B('reply-per-line', S, "        reply = Reply()\n\n        while True:\n", "        while True:\n            reply = Reply()\n", 'C17-D3'),
    B('parse-skipped-for-continuation', S, "            reply.parse(line)\n",
      "            if line[3:4] == b'-':\n                break\n            reply.parse(line)\n", 'C17-D3'),
    B('final-line-without-space-test', R, "if match.group(1) and match.group(2) == b' ':", "if match.group(1):", 'C17-D3'),
    B('final-line-on-dash', R, "match.group(2) == b' ':", "match.group(2) == b'-':", 'C17-D3'),
    B('final-line-str-constant', R, "match.group(2) == b' ':", "match.group(2) == ' ':", 'C17-D3'),
    B('code-any-digit-run', R, "br'(\\d{3}|^)([ -]?)(.*)'", "br'(\\d+|^)([ -]?)(.*)'", 'C17-D3'),
    B('code-two-digits', R, "br'(\\d{3}|^)([ -]?)(.*)'", "br'(\\d{2}|^)([ -]?)(.*)'", 'C17-D3'),
    B('code-from-text-group', R, "self.code = int(match.group(1))", "self.code = int(match.group(1)[:1])", 'C17-D3'),
    # ------------------------------------------------------------------ D4
    B('reply-before-data', C, "        yield from data_stream.read_file(file=file)\n\n" + END_STREAM,
      END_STREAM + "\n        yield from data_stream.read_file(file=file)\n", 'C17-D4'),
    B('final-code-check-removed', C,
      "        self.raise_if_not_match(\n            'End stream',\n            ReplyCodes.closing_data_connection,\n            reply\n        )\n", "", 'C17-D4'),
    B('read-file-not-awaited', C, "        yield from data_stream.read_file(file=file)\n", "        data_stream.read_file(file=file)\n", 'C17-D4'),
    B('final-code-widened', C, "            ReplyCodes.closing_data_connection,\n            reply\n",
      "            (ReplyCodes.closing_data_connection, ReplyCodes.connection_closed_transfer_aborted),\n            reply\n", 'C17-D4'),
    B('final-code-wrong-constant', C, "            ReplyCodes.closing_data_connection,\n            reply\n",
      "            ReplyCodes.data_connection_open_no_transfer_in_progress,\n            reply\n", 'C17-D4'),
    B('match-inverted', C, "        if reply.code not in expected_codes:\n", "        if reply.code in expected_codes:\n", 'C17-D4'),
    B('data-error-swallowed', C, "        yield from data_stream.read_file(file=file)\n",
      "        try:\n            yield from data_stream.read_file(file=file)\n        except Exception:\n"
      "            _logger.debug('Data connection failed.')\n", 'C17-D4'),
    B('check-error-swallowed', C, END_STREAM,
      "        reply = yield from self._control_stream.read_reply()\n\n        try:\n"
      "            self.raise_if_not_match('End stream', ReplyCodes.closing_data_connection, reply)\n"
      "        except FTPServerError:\n            _logger.debug('Transfer not confirmed.')\n", 'C17-D4'),
    B('short-read-ends-transfer', S, "            if not data:\n                break\n", "            if len(data) < 4096:\n                break\n", 'C17-D4'),
    B('timeout-swallowed', L, TIMEOUT, "        except asyncio.TimeoutError as error:\n            reply = None\n", 'C17-D4'),
    B('server-error-swallowed', L, "        except asyncio.TimeoutError as error:\n            raise DurationTimeout(",
      "        except FTPServerError as error:\n            reply = None\n        except asyncio.TimeoutError as error:\n            raise DurationTimeout(", 'C17-D4'),
    B('received-before-transfer', L, "        read_future = self._commander.read_stream(file, self._data_stream)\n",
      "        self._session_state = SessionState.response_received\n        read_future = self._commander.read_stream(file, self._data_stream)\n", 'C17-D4'),
    B('received-at-start', L, "        self._session_state = SessionState.file_request_sent\n\n        return response\n",
      "        self._session_state = SessionState.response_received\n\n        return response\n", 'C17-D4'),
    B('read-stream-not-awaited', L, "            reply = yield from \\\n                asyncio.wait_for(read_future, timeout=duration_timeout)\n",
      "            reply = read_future\n", 'C17-D4'),
    # ------------------------------------------------------------------ D5
    B('pasv-five-groups', U, "        r'\\s*(\\d{1,3})\\s*'\n        r'\\)',\n", "        r'\\)',\n", 'C17-D5'),
    B('pasv-unbounded-digits', U, "        r'\\('\n        r'(\\d{1,3})\\s*,'\n", "        r'\\('\n        r'(\\d+)\\s*,'\n", 'C17-D5'),
    B('pasv-dot-separator', U, "        r'\\('\n        r'(\\d{1,3})\\s*,'\n", "        r'\\('\n        r'(\\d{1,3})\\s*.'\n", 'C17-D5'),
    B('pasv-port-swapped', U, "int(match.group(5)) << 8 | int(match.group(6))", "int(match.group(6)) << 8 | int(match.group(5))", 'C17-D5'),
    B('pasv-port-shift-7', U, "int(match.group(5)) << 8 | int(match.group(6))", "int(match.group(5)) << 7 | int(match.group(6))", 'C17-D5'),
    B('pasv-no-match-returns', U, "        raise ValueError('No address found')\n", "        return None\n", 'C17-D5'),

    # ------------------------------------------------------------------ benign
    N('percent-format', R, LINE,
      "        line = '%s %s\\r\\n' % (self.name, self.argument)\n\n        return line.encode('utf-8', errors='surrogateescape')\n"),
    N('concatenation-alias', R, FIXED + "            'utf-8', errors='surrogateescape')\n",
      "    def to_bytes(self):\n        argument = self.argument\n\n        if '\\n' in argument or '\\r' in argument:\n"
      "            raise ProtocolError('Command argument contains a line break.')\n\n"
      "        return (self.name + ' ' + argument + '\\r\\n').encode('utf-8', errors='surrogateescape')\n"),
    N('regex-check', R, IF_CRLF, "        if re.search(r'[\\r\\n]', self.argument):\n"),
    N('early-return-style', R, CHECK + LINE,
      "        if '\\r' not in self.argument and '\\n' not in self.argument:\n"
      "            return '{0} {1}\\r\\n'.format(self.name, self.argument).encode(\n                'utf-8', errors='surrogateescape')\n\n"
      "        raise ProtocolError('Command argument contains a line break.')\n"),
    N('check-in-helper', R, CHECK + LINE,
      "        self._reject_line_breaks()\n\n" + LINE +
      "\n    def _reject_line_breaks(self):\n        for char in ('\\r', '\\n'):\n            pass\n\n"
      "        if self.argument.find('\\r') >= 0 or self.argument.find('\\n') != -1:\n"
      "            raise ProtocolError('Command argument contains a line break.')\n"),
    N('any-check', R, IF_CRLF, "        if any(char in self.argument for char in '\\r\\n'):\n"),
    N('other-handled-error', R, RAISE, "            raise wpull.protocol.ftp.util.FTPServerError('Command argument contains a line break.')\n"),
    N('lf-test-endswith', S, "            if line[-1:] != b'\\n':\n", "            if not line.endswith(b'\\n'):\n"),
    N('loop-test-respelled', S, "            if reply.code is not None:\n                break\n",
      "            if not reply.code is None:\n                _logger.debug('Reply complete.')\n                break\n"),
    N('loop-condition-form', S, "        reply = Reply()\n\n        while True:\n", "        reply = Reply()\n\n        while reply.code is None:\n",
      more=[(S, "\n            if reply.code is not None:\n                break\n", "")]),
    N('groups-unpacked', R, "            if match.group(1) and match.group(2) == b' ':\n",
      "            code_text, separator, _rest = match.groups()\n\n            if code_text and separator == b' ':\n",
      more=[(R, "self.code = int(match.group(1))", "self.code = int(code_text)")]),
    N('final-line-test-reordered', R, "if match.group(1) and match.group(2) == b' ':", "if b' ' == match.group(2) and match.group(1) != b'':"),
    N('digit-class-respelled', R, "br'(\\d{3}|^)([ -]?)(.*)'", "br'([0-9][0-9][0-9]|^)([ -]?)(.*)'"),
    N('search-instead-of-match', R, "match = re.match(br'(\\d{3}|^)", "match = re.search(br'(\\d{3}|^)"),
    N('read-stream-renamed-logging', C, END_STREAM + "\n        data_stream.close()\n\n        return reply\n",
      "        final_reply = yield from self._control_stream.read_reply()\n        _logger.debug('Final reply %s', final_reply.code)\n\n"
      "        self.raise_if_not_match(\n            'End stream', ReplyCodes.closing_data_connection, final_reply)\n\n"
      "        data_stream.close()\n\n        return final_reply\n"),
    N('read-file-try-finally', C, "        yield from data_stream.read_file(file=file)\n",
      "        try:\n            yield from data_stream.read_file(file=file)\n        finally:\n"
      "            _logger.debug('Data connection read.')\n"),
    N('read-reply-try-finally', S, "            self._data_event_dispatcher.notify_read(line)\n            reply.parse(line)\n",
      "            try:\n                self._data_event_dispatcher.notify_read(line)\n            finally:\n"
      "                _logger.debug('Line read.')\n\n            reply.parse(line)\n"),
    N('match-respelled', C, "        if reply.code not in expected_codes:\n", "        if not reply.code in expected_codes:\n"),
    N('eof-test-respelled', S, "            if not data:\n                break\n", "            if len(data) == 0:\n                break\n"),
    N('wait-for-inlined', L,
      "        read_future = self._commander.read_stream(file, self._data_stream)\n\n        try:\n            reply = yield from \\\n"
      "                asyncio.wait_for(read_future, timeout=duration_timeout)\n",
      "        try:\n            reply = yield from asyncio.wait_for(\n"
      "                self._commander.read_stream(file, self._data_stream),\n                timeout=duration_timeout)\n"),
    N('pasv-port-multiply', U, "int(match.group(5)) << 8 | int(match.group(6))", "int(match.group(5)) * 256 + int(match.group(6))"),
    N('pasv-blank-after-paren', U, "        r'\\('\n        r'(\\d{1,3})\\s*,'\n", "        r'\\(\\s*'\n        r'([0-9]{1,3})\\s*,'\n"),
    N('pasv-no-match-first', U, "    if match:\n        if any(", "    if match is None:\n        raise ValueError('No address found')\n    if match:\n        if any("),
]

ENTRIES += [
    B('reply-parse-strips-lines', 'wpull/protocol/ftp/request.py', "        for line in data.splitlines(False):", "        for line in data.strip().splitlines(False):", 'C17-D3'),
    B('reply-parse-lstrips-line', 'wpull/protocol/ftp/request.py', "        for line in data.splitlines(False):\n", "        for line in data.splitlines(False):\n            line = line.lstrip()\n", 'C17-D3'),
    N('reply-parse-splitlines-default', 'wpull/protocol/ftp/request.py', "        for line in data.splitlines(False):", "        for line in data.splitlines():"),
]

ENTRIES += [
    B('readline-overrun-skipped', 'wpull/protocol/ftp/stream.py', "            except ValueError as error:\n                raise ProtocolError(\n                    'Invalid reply: {0}'.format(error)) from error\n",
      "            except ValueError as error:\n                if reply.text is None:\n                    raise ProtocolError(\n                        'Invalid reply: {0}'.format(error)) from error\n                continue\n", 'C17-D3'),
]
