F = 'wpull/warc/format.py'
R = 'wpull/warc/recorder.py'
N = 'wpull/namevalue.py'


def B(i, rel, old, new, expect=None, more=()):
    return {'id': 'C05/' + i, 'prop': 'C05', 'kind': 'break', 'edits': [(rel, old, new)] + list(more), 'expect': expect}


def G(i, rel, old, new, more=(), all_=False):
    e = {'id': 'C05/benign-' + i, 'prop': 'C05', 'kind': 'benign', 'edits': [(rel, old, new)] + list(more)}
    if all_:
        e['all'] = True
    return e


ITER_LOOP = "                if data == b'':\n                    break\n                yield data"
PREFIX = "                data = self.block_file.read(payload_offset)\n                block_hasher.update(data)\n"
LOOP_UPD = "                block_hasher.update(data)\n                payload_hasher.update(data)\n"
END_CTRL = ("        self._write_control_event(\n            connection_string.format(hostname=hostname, port=port)\n        )\n\n"
            "        self._control_record.block_file.seek(0)\n")
RECOMPUTE = ("            self._recorder.set_length_and_maybe_checksums(\n                self._response_record\n            )\n\n"
             "            fields[WARCRecord.WARC_TYPE]")
REVISIT_THEN_WRITE = ("        if self._url_table is not None:\n            self._record_revisit(payload_offset)\n\n"
                      "        self._recorder.write_record(self._response_record)\n")
FIXED = "        payload_offset = self._response_payload_offset\n"       # spelling after planned fix 0012
PINNED = "        payload_offset = len(response.to_bytes())\n"           # spelling before it

ENTRIES = [
    # ---------------------------------------------------------------- D1 record grammar
    B('iter-fields-before-version', F,
      "        yield self.VERSION.encode()\n        yield b'\\r\\n'\n        yield bytes(self.fields)\n",
      "        yield bytes(self.fields)\n        yield self.VERSION.encode()\n        yield b'\\r\\n'\n", 'C05-D1'),
    B('iter-trailer-one-crlf', F, "yield b'\\r\\n\\r\\n'", "yield b'\\r\\n'", 'C05-D1'),
    B('iter-no-blank-line', F, "        yield bytes(self.fields)\n        yield b'\\r\\n'\n", "        yield bytes(self.fields)\n", 'C05-D1'),
    B('iter-yield-after-trailer', F, "        yield b'\\r\\n\\r\\n'\n", "        yield b'\\r\\n\\r\\n'\n        yield b'\\r\\n'\n", 'C05-D1'),
    B('iter-short-read-ends-block', F, ITER_LOOP,
      "                if len(data) < 4096:\n                    break\n                yield data", 'C05-D1'),
    B('iter-chunk-sliced', F, "                yield data\n", "                yield data[:4095]\n", 'C05-D1'),
    B('iter-version-1-1', F, "VERSION = 'WARC/1.0'", "VERSION = 'WARC/1.1'", 'C05-D1'),
    B('iter-first-chunk-only', F, ITER_LOOP, "                yield data\n                break", 'C05-D1'),
    # ---------------------------------------------------------------- D2 lengths and digests
    B('payload-hasher-fed-header', F, PREFIX, PREFIX + "                payload_hasher.update(data)\n", 'C05-D2'),
    B('length-from-offset', F, "self.fields['Content-Length'] = str(content_length)", "self.fields['Content-Length'] = str(payload_offset)", 'C05-D2'),
    B('tell-after-offset-restored', F, "            content_length = self.block_file.tell()\n\n        content_hash",
      "        content_length = self.block_file.tell()\n\n        content_hash", 'C05-D2'),
    B('block-hasher-skips-body', F, LOOP_UPD, "                payload_hasher.update(data)\n", 'C05-D2'),
    B('payload-hasher-skips-body', F, LOOP_UPD, "                block_hasher.update(data)\n", 'C05-D2'),
    B('payload-hasher-only-with-truthy-offset', F, LOOP_UPD,
      "                block_hasher.update(data)\n                if not payload_offset:\n                    payload_hasher.update(data)\n", 'C05-D2'),
    B('block-digest-from-payload-hasher', F, "content_hash = block_hasher.digest()", "content_hash = payload_hasher.digest()", 'C05-D2'),
    B('digest-base64', F, "base64.b32encode(content_hash)", "base64.b64encode(content_hash)", 'C05-D2'),
    B('digest-label-sha256', F, "self.fields['WARC-Payload-Digest'] = 'sha1:{0}'", "self.fields['WARC-Payload-Digest'] = 'sha256:{0}'", 'C05-D2'),
    B('prefix-off-by-one', F, "self.block_file.read(payload_offset)", "self.block_file.read(payload_offset + 1)", 'C05-D2'),
    B('prefix-guard-inverted', F, "            if payload_offset is not None:\n                data = self.block_file.read(payload_offset)",
      "            if payload_offset is None:\n                data = self.block_file.read(payload_offset)", 'C05-D2'),
    B('checksum-stops-at-short-read', F,
      "                if data == b'':\n                    break\n                block_hasher.update(data)",
      "                if len(data) < 4096:\n                    break\n                block_hasher.update(data)", 'C05-D2'),
    B('checksum-no-position-restore', F,
      "        with wpull.util.reset_file_offset(self.block_file):\n            if payload_offset is not None:",
      "        if True:\n            if payload_offset is not None:", 'C05-D2'),
    B('set-content-length-no-seek-end', F, "            wpull.util.seek_file_end(self.block_file)\n", "", 'C05-D2'),
    B('end-control-no-rewind', R, "        self._control_record.block_file.seek(0)\n", "", 'C05-D2'),
    B('end-control-rewind-before-last-event', R, END_CTRL,
      "        self._control_record.block_file.seek(0)\n        self._write_control_event(\n"
      "            connection_string.format(hostname=hostname, port=port)\n        )\n\n", 'C05-D2'),
    B('no-length-without-digests', R, "            record.set_content_length()\n", "            pass\n", 'C05-D2'),
    B('end-transfer-write-unmeasured', R,
      "        self._recorder.set_length_and_maybe_checksums(self._response_record)\n        self._recorder.write_record(self._response_record)\n",
      "        self._recorder.write_record(self._response_record)\n        self._recorder.set_length_and_maybe_checksums(self._response_record)\n",
      'C05-D2'),
    B('reset-file-offset-no-seek-back', 'wpull/util.py', "    yield\n    file.seek(offset)\n", "    yield\n", 'C05-D2'),
    B('warcinfo-measured-only-with-digests', R, "        self._warcinfo_record.compute_checksum()\n",
      "        if self._params.digests:\n            self._warcinfo_record.compute_checksum()\n", 'C05-D2'),
    B('seek-end-fallback-short-read', 'wpull/util.py', "            data = file.read(4096)\n            if not data:\n                break\n",
      "            data = file.read(4096)\n            if len(data) < 4096:\n                break\n", 'C05-D2'),
    # ---------------------------------------------------------------- D3 payload offset provenance
    B('connection-close-after-serialise', 'wpull/protocol/http/stream.py',
      "        if self._ignore_length:\n            request.fields['Connection'] = 'close'\n\n        data = request.to_bytes()\n",
      "        data = request.to_bytes()\n\n        if self._ignore_length:\n            request.fields['Connection'] = 'close'\n", 'C05-D3'),
    B('regress-offset-from-reserialisation', R, FIXED, PINNED, 'C05-D3'),
    B('offset-taken-at-end-of-response', R, FIXED, "        payload_offset = self._response_temp_file.tell()\n", 'C05-D3'),
    B('offset-updated-per-chunk', R,
      "    def response_data(self, data: bytes):\n        self._response_temp_file.write(data)\n",
      "    def response_data(self, data: bytes):\n        self._response_temp_file.write(data)\n"
      "        self._response_payload_offset = self._response_temp_file.tell()\n", 'C05-D3'),
    B('offset-of-request-file', R, "self._response_payload_offset = self._response_temp_file.tell()",
      "self._response_payload_offset = self._request_record.block_file.tell()", 'C05-D3'),
    B('request-offset-plus-two', R, "payload_offset = len(request.to_bytes())", "payload_offset = len(request.to_bytes()) + 2", 'C05-D3'),
    B('offset-not-passed-on', R, "record.compute_checksum(payload_offset)", "record.compute_checksum()", 'C05-D3'),
    B('response-measured-without-offset', R,
      "            self._response_record,\n            payload_offset=payload_offset\n        )",
      "            self._response_record\n        )", 'C05-D3'),
    B('begin-response-before-header-read', 'wpull/protocol/http/client.py',
      "        header_data = []\n        header_callback = header_data.append\n",
      "        self.event_dispatcher.notify(self.Event.begin_response, None)\n        header_data = []\n        header_callback = header_data.append\n", 'C05-D3'),
    # ---------------------------------------------------------------- D4 members, warcinfo pointer, ids
    B('gzip-when-not-compressing', R, "        if self._params.compress:\n            open_func = gzip.GzipFile",
      "        if not self._params.compress:\n            open_func = gzip.GzipFile", 'C05-D4'),
    B('archive-not-closed', R,
      "            with open_func(self._warc_filename, mode='ab') as out_file:\n                for data in record:\n                    out_file.write(data)\n",
      "            out_file = open_func(self._warc_filename, mode='ab')\n            for data in record:\n                out_file.write(data)\n", 'C05-D4'),
    B('trailer-not-written', R, "                for data in record:\n", "                for data in list(record)[:-1]:\n", 'C05-D4'),
    B('warcinfo-id-points-at-itself', R,
      "record.fields['WARC-Warcinfo-ID'] = self._warcinfo_record.fields[\n            WARCRecord.WARC_RECORD_ID]",
      "record.fields['WARC-Warcinfo-ID'] = record.fields[\n            WARCRecord.WARC_RECORD_ID]", 'C05-D4'),
    B('warcinfo-id-only-with-cdx', R,
      "        record.fields['WARC-Warcinfo-ID'] = self._warcinfo_record.fields[\n            WARCRecord.WARC_RECORD_ID]\n",
      "        if self._cdx_filename:\n            record.fields['WARC-Warcinfo-ID'] = self._warcinfo_record.fields[\n                WARCRecord.WARC_RECORD_ID]\n",
      'C05-D4'),
    B('warcinfo-not-written-when-appending', R, "        self.write_record(self._warcinfo_record)\n",
      "        if not self._params.appending:\n            self.write_record(self._warcinfo_record)\n", 'C05-D4'),
    B('warcinfo-id-at-creation', R,
      "        record.fields['WARC-Warcinfo-ID'] = self._warcinfo_record.fields[\n            WARCRecord.WARC_RECORD_ID]\n",
      "        if 'WARC-Warcinfo-ID' not in record.fields:\n            record.fields['WARC-Warcinfo-ID'] = self._warcinfo_record.fields[\n"
      "                WARCRecord.WARC_RECORD_ID]\n", 'C05-D4',
      more=[(R, "        record.block_file = self._new_temp_file(hint='warcsesreq')\n",
             "        record.block_file = self._new_temp_file(hint='warcsesreq')\n"
             "        record.fields['WARC-Warcinfo-ID'] = self._recorder._warcinfo_record.fields[\n                WARCRecord.WARC_RECORD_ID]\n")]),
    B('rollover-without-warcinfo', R,
      "            _logger.debug('Starting new warc file due to max size.')\n            self._start_new_warc_file()\n",
      "            _logger.debug('Starting new warc file due to max size.')\n            self._warc_filename = self._generate_warc_filename()\n",
      'C05-D4'),
    B('archive-handle-cached', R,
      "            with open_func(self._warc_filename, mode='ab') as out_file:\n                for data in record:\n                    out_file.write(data)\n",
      "            if self._out_file is None:\n                self._out_file = open_func(self._warc_filename, mode='ab')\n"
      "            for data in record:\n                self._out_file.write(data)\n            self._out_file.flush()\n", 'C05-D4'),
    B('record-id-name-based', F, "uuid.uuid4().urn", "uuid.uuid5(uuid.NAMESPACE_URL, warc_type).urn", 'C05-D4'),
    B('record-id-no-brackets', F, "'<{0}>'.format(uuid.uuid4().urn)", "'{0}'.format(uuid.uuid4().urn)", 'C05-D4'),
    B('log-record-without-common-fields', R, "            log_record.set_common_fields('resource', 'text/plain')\n", "", 'C05-D4'),
    # ---------------------------------------------------------------- D5 one line per field
    B('record-fields-folded', F, "NameValueRecord(normalize_overrides=self.NAME_OVERRIDES)",
      "NameValueRecord(normalize_overrides=self.NAME_OVERRIDES, wrap_width=1024)", 'C05-D5'),
    B('fold-by-default', N, "wrap_width=None):", "wrap_width=78):", 'C05-D5'),
    B('target-uri-raw', R, "record.fields['WARC-Target-URI'] = request.url_info.url\n        record.fields['WARC-IP-Address'] = request.address[0]\n        record.block_file = self._new_temp_file(hint='warcsesreq')",
      "record.fields['WARC-Target-URI'] = request.url_info.raw\n        record.fields['WARC-IP-Address'] = request.address[0]\n        record.block_file = self._new_temp_file(hint='warcsesreq')",
      'C05-D5'),
    B('field-from-server-text', R, "        record.block_file = self._response_temp_file\n",
      "        record.block_file = self._response_temp_file\n        record.fields['X-Reason'] = response.reason\n", 'C05-D5'),
    B('header-lines-lf', N, "return '\\r\\n'.join(pairs)", "return '\\n'.join(pairs)", 'C05-D5'),
    B('header-no-final-crlf', N, "        pairs.append('')\n", "", 'C05-D5'),
    B('setitem-appends', N, "self._map[normalized_name][:] = (value,)", "self._map[normalized_name].append(value)", 'C05-D5'),
    B('always-wrap', N, "            if value and self._wrap_width:", "            if value:", 'C05-D5'),
    B('ftp-type-from-request', R, "record.set_common_fields('resource', 'application/octet-stream')",
      "record.set_common_fields('resource', response.reply.text)", 'C05-D5'),
    B('warc-date-local-time', 'wpull/util.py', "time.gmtime()", "time.localtime()", 'C05-D5'),
    B('get-all-first-value-only', N, "            for value in values:\n                yield (name, value)",
      "            for value in values[:1]:\n                yield (name, value)", 'C05-D5'),
    # ---------------------------------------------------------------- D6 revisit truncation
    B('revisit-cut-off-by-two', R, "block_file.truncate(payload_offset)", "block_file.truncate(payload_offset + 2)", 'C05-D6'),
    B('revisit-not-remeasured', R, RECOMPUTE, "            fields[WARCRecord.WARC_TYPE]", 'C05-D6'),
    B('revisit-other-offset', R, "self._record_revisit(payload_offset)", "self._record_revisit(len(response.to_bytes()))", 'C05-D6'),
    B('revisit-after-write', R, REVISIT_THEN_WRITE,
      "        self._recorder.write_record(self._response_record)\n\n        if self._url_table is not None:\n"
      "            self._record_revisit(payload_offset)\n", 'C05-D6'),
    B('revisit-measured-before-cut', R,
      "            try:\n                self._response_record.block_file.truncate(payload_offset)\n",
      "            self._recorder.set_length_and_maybe_checksums(\n                self._response_record\n            )\n"
      "            try:\n                self._response_record.block_file.truncate(payload_offset)\n",
      'C05-D6', more=[(R, RECOMPUTE, "            fields[WARCRecord.WARC_TYPE]")]),

    # ================================================================ benign
    G('rename-chunk-local', F, "data", "chunk", all_=True),
    G('eof-test-not-data', F, "if data == b'':", "if not data:", all_=True),
    G('eof-test-len', F, "if data == b'':", "if len(data) == 0:", all_=True),
    G('trailer-two-yields', F, "        yield b'\\r\\n\\r\\n'\n", "        yield b'\\r\\n'\n        yield b'\\r\\n'\n"),
    G('version-line-one-yield', F, "        yield self.VERSION.encode()\n        yield b'\\r\\n'\n", "        yield self.VERSION.encode('ascii') + b'\\r\\n'\n"),
    G('fields-to-bytes', F, "yield bytes(self.fields)", "yield self.fields.to_bytes()"),
    G('hasher-updates-reordered', F, LOOP_UPD, "                payload_hasher.update(data)\n                block_hasher.update(data)\n"),
    G('digest-inlined', F,
      "        content_hash = block_hasher.digest()\n\n        self.fields['WARC-Block-Digest'] = 'sha1:{0}'.format(\n"
      "            base64.b32encode(content_hash).decode()\n        )\n",
      "        self.fields['WARC-Block-Digest'] = 'sha1:' + base64.b32encode(block_hasher.digest()).decode('ascii')\n"),
    G('offset-test-truthiness', F, "            if payload_offset is not None:\n                data = self.block_file.read(payload_offset)",
      "            if payload_offset:\n                data = self.block_file.read(payload_offset)"),
    G('seek-end-direct', F, "            wpull.util.seek_file_end(self.block_file)\n", "            self.block_file.seek(0, 2)\n"),
    G('length-local', F, "            self.fields['Content-Length'] = str(self.block_file.tell())\n",
      "            length = self.block_file.tell()\n            self.fields['Content-Length'] = str(length)\n"),
    G('early-return-inverted', F,
      "        if not self.block_file:\n            self.fields['Content-Length'] = '0'\n            return\n\n        block_hasher = hashlib.sha1()",
      "        if self.block_file is None:\n            self.fields['Content-Length'] = '0'\n            return\n\n        block_hasher = hashlib.sha1()"),
    G('opener-branches-swapped', R,
      "        if self._params.compress:\n            open_func = gzip.GzipFile\n        else:\n            open_func = open\n",
      "        if not self._params.compress:\n            open_func = open\n        else:\n            open_func = gzip.GzipFile\n"),
    G('write-loop-iter', R, "                for data in record:\n                    out_file.write(data)\n",
      "                for chunk in iter(record):\n                    out_file.write(chunk)\n"),
    G('write-bytes-of-record', R, "                for data in record:\n                    out_file.write(data)\n",
      "                out_file.write(bytes(record))\n"),
    G('end-response-logging', R, FIXED, FIXED + "        _logger.debug('payload starts at {}', payload_offset)\n"),
    G('end-response-field-direct', R, FIXED, "",
      more=[(R, "            self._response_record,\n            payload_offset=payload_offset\n        )",
             "            self._response_record,\n            payload_offset=self._response_payload_offset\n        )"),
            (R, "self._record_revisit(payload_offset)", "self._record_revisit(self._response_payload_offset)")]),
    G('offset-via-record-alias', R, "self._response_payload_offset = self._response_temp_file.tell()",
      "self._response_payload_offset = record.block_file.tell()"),
    G('offset-as-frozen-counter', R, "self._response_payload_offset = self._response_temp_file.tell()",
      "self._response_payload_offset = self._received",
      more=[(R, "    def response_data(self, data: bytes):\n        self._response_temp_file.write(data)\n",
             "    def response_data(self, data: bytes):\n        self._response_temp_file.write(data)\n        self._received += len(data)\n"),
            (R, "        self._response_payload_offset = None\n", "        self._response_payload_offset = None\n        self._received = 0\n")]),
    G('revisit-guard-early-return', R,
      "        if ref_record_id:\n            try:\n                self._response_record.block_file.truncate(payload_offset)\n",
      "        if not ref_record_id:\n            return\n\n        if True:\n            try:\n                self._response_record.block_file.truncate(payload_offset)\n"),
    G('request-offset-inline', R,
      "        payload_offset = len(request.to_bytes())\n\n        self._request_record.block_file.seek(0)\n        self._recorder.set_length_and_maybe_checksums(\n"
      "            self._request_record, payload_offset=payload_offset\n        )",
      "        self._request_record.block_file.seek(0)\n        self._recorder.set_length_and_maybe_checksums(\n"
      "            self._request_record, payload_offset=len(request.to_bytes())\n        )"),
    G('warcinfo-id-by-name', R, "self._warcinfo_record.fields[\n            WARCRecord.WARC_RECORD_ID]", "self._warcinfo_record.fields['WARC-Record-ID']"),
    G('to-str-colon-format', N, "pairs.append('{0}: {1}'.format(name, value))", "pairs.append('{}: {}'.format(name, value))"),
    G('setitem-list', N, "self._map[normalized_name][:] = (value,)", "self._map[normalized_name][:] = [value]"),
    G('reset-offset-try-finally', 'wpull/util.py', "    offset = file.tell()\n    yield\n    file.seek(offset)\n",
      "    offset = file.tell()\n    try:\n        yield\n    finally:\n        file.seek(offset)\n"),
    G('prefix-straight-into-hasher', F, PREFIX, "                block_hasher.update(self.block_file.read(payload_offset))\n"),
    G('while-data-loop', F,
      "            while True:\n                data = self.block_file.read(4096)\n                if data == b'':\n                    break\n                yield data\n",
      "            data = self.block_file.read(4096)\n            while data:\n                yield data\n                data = self.block_file.read(4096)\n"),
    G('iter-guard-no-block', F,
      "        with wpull.util.reset_file_offset(self.block_file):\n            while True:\n                data = self.block_file.read(4096)\n"
      "                if data == b'':\n                    break\n                yield data\n",
      "        if self.block_file is not None:\n            with wpull.util.reset_file_offset(self.block_file):\n                while True:\n"
      "                    data = self.block_file.read(4096)\n                    if data == b'':\n                        break\n"
      "                    yield data\n"),
    G('rewind-via-temp-file-name', R, "        self._response_record.block_file.seek(0)\n        self._recorder.set_length_and_maybe_checksums(\n            self._response_record,",
      "        self._response_temp_file.seek(0)\n        self._recorder.set_length_and_maybe_checksums(\n            self._response_record,"),
    G('record-local-renamed', R,
      "        self._request_record = record = WARCRecord()\n        record.set_common_fields(WARCRecord.REQUEST, WARCRecord.TYPE_REQUEST)\n"
      "        record.fields['WARC-Target-URI'] = request.url_info.url\n        record.fields['WARC-IP-Address'] = request.address[0]\n"
      "        record.block_file = self._new_temp_file(hint='warcsesreq')",
      "        self._request_record = rec = WARCRecord()\n        rec.set_common_fields(WARCRecord.REQUEST, WARCRecord.TYPE_REQUEST)\n"
      "        rec.fields['WARC-Target-URI'] = request.url_info.url\n        rec.fields['WARC-IP-Address'] = request.address[0]\n"
      "        rec.block_file = self._new_temp_file(hint='warcsesreq')"),
    G('payload-hasher-only-with-offset', F, LOOP_UPD,
      "                block_hasher.update(data)\n                if payload_offset is not None:\n                    payload_hasher.update(data)\n"),
    G('uuid-local', F, "        self.fields[self.WARC_RECORD_ID] = '<{0}>'.format(uuid.uuid4().urn)\n",
      "        record_uuid = uuid.uuid4()\n        self.fields[self.WARC_RECORD_ID] = '<{0}>'.format(record_uuid.urn)\n"),
]

ENTRIES += [
    {'id': 'C05/revisit-lookup-placeholder', 'prop': 'C05', 'kind': 'break', 'expect': 'C05-D6', 'edits': [('wpull/warc/recorder.py',
      "fields.get('WARC-Payload-Digest', '').upper()", "fields.get('WARC-Payload-Digest', '-').upper()")]},
    {'id': 'C04/revisit-lookup-placeholder', 'prop': 'C04', 'kind': 'break', 'expect': 'C04-D6', 'edits': [('wpull/warc/recorder.py',
      "fields.get('WARC-Payload-Digest', '').upper()", "fields.get('WARC-Payload-Digest', '-').upper()")]},
]
