R = 'wpull/warc/recorder.py'


def B(i, old, new, expect=None, rel=R):
    return {'id': 'C06/' + i, 'prop': 'C06', 'kind': 'break', 'edits': [(rel, old, new)], 'expect': expect}


def N(i, old, new, rel=R):
    return {'id': 'C06/benign-' + i, 'prop': 'C06', 'kind': 'benign', 'edits': [(rel, old, new)]}


ENTRIES = [
    B('regress-wb', "mode='r+b'", "mode='wb'", 'C06-D1'),
    B('append-wb', "open_func(self._warc_filename, mode='ab')", "open_func(self._warc_filename, mode='wb')", 'C06-D1'),
    B('journal-after-open',
      """            with open(journal_filename, 'w') as file:
                file.write('wpull-journal-version:1\\n')
                file.write('offset:{}\\n'.format(before_offset))

            with open_func(self._warc_filename, mode='ab') as out_file:
""",
      """            with open_func(self._warc_filename, mode='ab') as out_file:
                with open(journal_filename, 'w') as file:
                    file.write('wpull-journal-version:1\\n')
                    file.write('offset:{}\\n'.format(before_offset))
""", 'C06-D2'),
    B('remove-not-finally',
      """            raise
        finally:
            if os.path.exists(journal_filename):
                os.remove(journal_filename)
""",
      """            raise

        if os.path.exists(journal_filename):
            os.remove(journal_filename)
""", 'C06-D3'),
    B('rollback-after-offset', "out_file.truncate(before_offset)",
      "out_file.truncate(os.path.getsize(self._warc_filename))", 'C06-D3'),
    B('rollback-swallow', "            raise\n        finally:", "        finally:", 'C06-D3'),
    B('no-journal-check', "        self._check_journals_and_maybe_raise()\n\n        if params.log:", "        if params.log:", 'C06-D4'),
    B('journal-check-late',
      "        self._check_journals_and_maybe_raise()\n\n        if params.log:\n            self._setup_log()\n\n        self._start_new_warc_file()\n",
      "        if params.log:\n            self._setup_log()\n\n        self._start_new_warc_file()\n        self._check_journals_and_maybe_raise()\n", 'C06-D4'),
    B('journal-check-inverted', "        if files:\n            raise OSError('WARC file {} is incomplete.'", "        if not files:\n            raise OSError('WARC file {} is incomplete.'", 'C06-D4'),
    B('journal-glob-suffix', "'*-wpullinc'", "'*-wpullinc.tmp'", 'C06-D4'),
    B('journal-offset-after',
      "file.write('offset:{}\\n'.format(before_offset))", "file.write('offset:{}\\n'.format(0))", 'C06-D2'),
    B('truncate-when-appending', "        if not self._params.appending:\n            wpull.util.truncate_file(self._warc_filename)",
      "        if True:\n            wpull.util.truncate_file(self._warc_filename)", 'C06-D1'),
    B('handler-narrowed', "        except BaseException:\n            # Not only I/O errors", "        except (ValueError,):\n            # Not only I/O errors", 'C06-D3'),
    B('regress-rollback-only-oserror', "        except BaseException:\n            # Not only I/O errors", "        except (OSError, IOError):\n            # Not only I/O errors", 'C06-D3'),
    B('regress-journal-outside-try', """        try:
            with open(journal_filename, 'w') as file:
                file.write('wpull-journal-version:1\\n')
                file.write('offset:{}\\n'.format(before_offset))

            with open_func""", """        with open(journal_filename, 'w') as file:
            file.write('wpull-journal-version:1\\n')
            file.write('offset:{}\\n'.format(before_offset))

        try:
            with open_func""", 'C06-D3'),
    N('rename-local', "before_offset", "size_before"),
    N('reorder-journal-name',
      "        journal_filename = self._warc_filename + '-wpullinc'\n\n        try:",
      "        journal_filename = self._warc_filename + '-wpullinc'\n        _logger.debug('journal {}', journal_filename)\n\n        try:"),
    N('named-reraise', "        except BaseException:\n            # Not only I/O errors", "        except BaseException as error:\n            # Not only I/O errors", ),
    N('journal-removed-unconditionally', "            if os.path.exists(journal_filename):\n                os.remove(journal_filename)\n", "            os.remove(journal_filename)\n"),
    N('os-truncate',
      "            with open(self._warc_filename, mode='r+b') as out_file:\n                out_file.truncate(before_offset)\n",
      "            os.truncate(self._warc_filename, before_offset)\n"),
]
for e in ENTRIES:
    if e['id'].endswith('rename-local'):
        e['all'] = True

LG = 'wpull/backport/logging.py'
TW = 'wpull/application/tasks/warc.py'
ENTRIES += [
    B('log-keywords-into-extra', "        kwargs['extra'] = self.extra\n",
      "        extra = dict(self.extra)\n        extra.update(\n            (key, value) for key, value in msg_kwargs.items()\n            if key not in kwargs\n        )\n        kwargs['extra'] = extra\n", 'C06-D3', LG),
    N('log-extra-copied', "        kwargs['extra'] = self.extra\n", "        extra = dict(self.extra)\n        kwargs['extra'] = extra\n", LG),
    B('setup-removes-journals', "        url_table = session.factory['URLTable'] if args.warc_dedup else None\n",
      "        url_table = session.factory['URLTable'] if args.warc_dedup else None\n\n        if not args.warc_append:\n            import glob, os\n            for path in glob.glob(glob.escape(args.warc_file) + '*-wpullinc'):\n                os.remove(path)\n", 'C06-D4', TW),
]
