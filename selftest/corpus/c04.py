"""Self-test corpus for C04 (WARC records hold exactly the wire bytes)."""
S = 'wpull/protocol/http/stream.py'
C = 'wpull/protocol/http/chunked.py'
CL = 'wpull/protocol/http/client.py'
FC = 'wpull/protocol/ftp/client.py'
R = 'wpull/warc/recorder.py'
A = 'wpull/protocol/abstract/stream.py'
F = 'wpull/warc/format.py'
P12 = '/verif/planned-fixes/0012-fix-take-the-WARC-payload-offset-from-the-received-h.patch'


def B(i, edits, expect=None, all_=False):
    if isinstance(edits, tuple):
        edits = [edits]
    e = {'id': 'C04/' + i, 'prop': 'C04', 'kind': 'break', 'edits': edits, 'expect': expect}
    if all_:
        e['all'] = True
    return e


def N(i, edits, all_=False):
    if isinstance(edits, tuple):
        edits = [edits]
    e = {'id': 'C04/benign-' + i, 'prop': 'C04', 'kind': 'benign', 'edits': edits}
    if all_:
        e['all'] = True
    return e


NOTIFY = "self._data_event_dispatcher.notify_read(data)"

ENTRIES = [
    # ------------------------------------------------------------------ D1
    B('header-notify-after-collect', (S,
      "            " + NOTIFY + "\n\n            if not data.endswith(b'\\n'):\n                raise NetworkError('Connection closed.')\n"
      "            elif data in (b'\\r\\n', b'\\n'):\n                break\n\n            header_lines.append(data)\n",
      "            if not data.endswith(b'\\n'):\n                raise NetworkError('Connection closed.')\n"
      "            elif data in (b'\\r\\n', b'\\n'):\n                break\n\n            header_lines.append(data)\n"
      "            " + NOTIFY + "\n"), 'C04-D1'),
    B('header-notify-after-parse', [
        (S, "            " + NOTIFY + "\n\n            if not data.endswith(b'\\n'):", "            if not data.endswith(b'\\n'):"),
        (S, "        response.parse(b''.join(header_lines))\n",
         "        response.parse(b''.join(header_lines))\n        self._data_event_dispatcher.notify_read(b''.join(header_lines))\n"),
    ], 'C04-D1'),
    B('header-skip-leading-blank-lines', (S,
      "            " + NOTIFY + "\n\n            if not data.endswith(b'\\n'):",
      "            if not header_lines and data in (b'\\r\\n', b'\\n'):\n                continue\n\n"
      "            " + NOTIFY + "\n\n            if not data.endswith(b'\\n'):"), 'C04-D1'),
    B('header-notify-twice', (S,
      "            " + NOTIFY + "\n\n            if not data.endswith(b'\\n'):",
      "            " + NOTIFY + "\n            " + NOTIFY + "\n\n            if not data.endswith(b'\\n'):"), 'C04-D1'),
    B('trailer-notify-deleted', (S, "        self._data_event_dispatcher.notify_read(trailer_data)\n\n", ""), 'C04-D1'),
    B('chunk-notify-content', (S,
      "                " + NOTIFY + "\n\n                if not content:",
      "                self._data_event_dispatcher.notify_read(content)\n\n                if not content:"), 'C04-D1'),
    B('chunk-header-notify-only-raw', (S,
      "            " + NOTIFY + "\n            if raw:\n                file.write(data)\n",
      "            if raw:\n                " + NOTIFY + "\n                file.write(data)\n"), 'C04-D1'),
    B('chunk-newline-dropped', (C, "return (b'', newline_data)", "return (b'', b'')"), 'C04-D1'),
    B('chunk-header-stripped', (C, "return chunk_size, chunk_size_hex", "return chunk_size, chunk_size_hex.strip()"), 'C04-D1'),
    B('trailer-blank-line-not-collected', (C,
      "            trailer_data_list.append(trailer_data)\n\n            if trailer_data in (b'\\r\\n', b'\\n'):\n                break\n",
      "            if trailer_data in (b'\\r\\n', b'\\n'):\n                break\n\n            trailer_data_list.append(trailer_data)\n"), 'C04-D1'),
    B('trailer-last-line-only', (C, "return b''.join(trailer_data_list)", "return trailer_data"), 'C04-D1'),
    B('chunk-terminator-discarded', (C,
      "            newline_data = yield from self._connection.readline()\n",
      "            yield from self._connection.readline()\n            newline_data = b'\\r\\n'\n"), 'C04-D1'),
    # ------------------------------------------------------------------ D2
    B('report-before-cut', (S,
      "            bytes_left -= len(data)\n\n            if bytes_left < 0:\n                data = data[:bytes_left]\n\n"
      "                _logger.warning(_('Content overrun.'))\n                self.close()\n\n            " + NOTIFY + "\n",
      "            bytes_left -= len(data)\n            " + NOTIFY + "\n\n            if bytes_left < 0:\n                data = data[:bytes_left]\n\n"
      "                _logger.warning(_('Content overrun.'))\n                self.close()\n"), 'C04-D2'),
    B('cut-when-exactly-complete', (S, "            if bytes_left < 0:\n                data = data[:bytes_left]",
                                    "            if bytes_left <= 0:\n                data = data[:bytes_left]"), 'C04-D2'),
    B('cut-off-by-one', (S, "data = data[:bytes_left]", "data = data[:bytes_left - 1]"), 'C04-D2'),
    B('remainder-by-read-size', (S, "            bytes_left -= len(data)\n\n            if bytes_left < 0:",
                                 "            bytes_left -= self._read_size\n\n            if bytes_left < 0:"), 'C04-D2'),
    B('remainder-starts-one-high', (S, "        bytes_left = body_size\n", "        bytes_left = body_size + 1\n"), 'C04-D2'),
    B('cut-in-close-reader', (S,
      "            if not data:\n                break\n\n            " + NOTIFY + "\n\n            content_data",
      "            if not data:\n                break\n\n            data = data[:self._read_size]\n            " + NOTIFY + "\n\n            content_data"),
      'C04-D2'),
    # ------------------------------------------------------------------ D3
    B('request-reserialised-for-write', (S, "yield from self._connection.write(data, drain=False)",
                                         "yield from self._connection.write(request.to_bytes(), drain=False)"), 'C04-D3'),
    B('body-cut-after-report', (S,
      "            self._data_event_dispatcher.notify_write(data)\n\n            if bytes_left <= self._read_size:",
      "            self._data_event_dispatcher.notify_write(data)\n\n            if length is not None:\n                data = data[:bytes_left]\n\n"
      "            if bytes_left <= self._read_size:"), 'C04-D3'),
    B('body-report-dropped', (S, "            self._data_event_dispatcher.notify_write(data)\n\n            if bytes_left <= self._read_size:",
                              "            if bytes_left <= self._read_size:"), 'C04-D3'),
    # ------------------------------------------------------------------ D4
    B('read-listener-installed-late', (CL,
      "        stream.data_event_dispatcher.add_read_listener(header_callback)\n\n        while True:\n            del header_data[:]\n            self._response = response = yield from stream.read_response()\n",
      "        while True:\n            del header_data[:]\n            self._response = response = yield from stream.read_response()\n            stream.data_event_dispatcher.add_read_listener(header_callback)\n"), 'C04-D4'),
    B('end-request-before-body', (CL,
      "        if request.body:\n            assert 'Content-Length' in request.fields\n            length = int(request.fields['Content-Length'])\n"
      "            yield from stream.write_body(request.body, length=length)\n\n"
      "        stream.data_event_dispatcher.remove_write_listener(write_callback)\n"
      "        self.event_dispatcher.notify(self.Event.end_request, request)\n",
      "        stream.data_event_dispatcher.remove_write_listener(write_callback)\n"
      "        self.event_dispatcher.notify(self.Event.end_request, request)\n\n"
      "        if request.body:\n            assert 'Content-Length' in request.fields\n            length = int(request.fields['Content-Length'])\n"
      "            yield from stream.write_body(request.body, length=length)\n"), 'C04-D4'),
    B('write-listener-cross-wired', (CL, "functools.partial(self.event_dispatcher.notify, self.Event.request_data)",
                                     "functools.partial(self.event_dispatcher.notify, self.Event.response_data)"), 'C04-D4'),
    B('read-listener-removed-after-header', (CL,
      "        self.event_dispatcher.notify(self.Event.begin_response, response)\n",
      "        self.event_dispatcher.notify(self.Event.begin_response, response)\n"
      "        stream.data_event_dispatcher.remove_read_listener(read_callback)\n"), 'C04-D4'),
    B('end-response-before-body', [
        (CL, "        read_future = self._stream.read_body(self._request, self._response, file=file, raw=raw)\n",
         "        read_future = self._stream.read_body(self._request, self._response, file=file, raw=raw)\n"
         "        self.event_dispatcher.notify(self.Event.end_response, self._response)\n"),
        (CL, "        self.event_dispatcher.notify(self.Event.end_response, self._response)\n        self.recycle()", "        self.recycle()"),
    ], 'C04-D4'),
    B('recorder-begin-end-swapped', [
        (R, "HTTPSession.Event.begin_response, recorder_session.begin_response)", "HTTPSession.Event.begin_response, recorder_session.end_response)"),
        (R, "HTTPSession.Event.end_response, recorder_session.end_response)", "HTTPSession.Event.end_response, recorder_session.begin_response)"),
    ], 'C04-D4'),
    B('recorder-listener-deleted', (R,
      "        http_session.event_dispatcher.add_listener(\n            HTTPSession.Event.response_data, recorder_session.response_data)\n", ""),
      'C04-D4'),
    B('ftp-control-directions-swapped', [
        (R, "FTPSession.Event.control_receive_data,\n            recorder_session.control_receive_data)",
         "FTPSession.Event.control_receive_data,\n            recorder_session.control_send_data)"),
        (R, "FTPSession.Event.control_send_data,\n            recorder_session.control_send_data)",
         "FTPSession.Event.control_send_data,\n            recorder_session.control_receive_data)"),
    ], 'C04-D4'),
    B('ftp-reply-listener-on-write-side', (FC, "self._control_stream.data_event_dispatcher.add_read_listener(read_callback)",
                                           "self._control_stream.data_event_dispatcher.add_write_listener(read_callback)"), 'C04-D4'),
    B('dispatcher-read-listener-in-write-set', (A, "self._read_listeners.add(callback)", "self._write_listeners.add(callback)"), 'C04-D4'),
    B('dispatcher-first-listener-only', (A, "        for callback in self._read_listeners:\n            callback(data)\n",
                                         "        for callback in self._read_listeners:\n            callback(data)\n            break\n"), 'C04-D4'),
    B('event-unregistered', (CL, "        self.event_dispatcher.register(self.Event.response_data)\n", ""), 'C04-D4'),
    # ------------------------------------------------------------------ D5
    B('response-data-stripped', (R, "self._response_temp_file.write(data)", "self._response_temp_file.write(data.strip())"), 'C04-D5'),
    B('request-data-into-response-file', (R, "self._request_record.block_file.write(data)", "self._response_temp_file.write(data)"), 'C04-D5'),
    B('response-data-only-after-begin', (R,
      "    def response_data(self, data: bytes):\n        self._response_temp_file.write(data)\n",
      "    def response_data(self, data: bytes):\n        if self._response_record:\n            self._response_temp_file.write(data)\n"), 'C04-D5'),
    B('response-block-is-a-new-file', (R, "record.block_file = self._response_temp_file", "record.block_file = self._new_temp_file(hint='warcsesrsp')"),
      'C04-D5'),
    B('ftp-sent-marked-as-received', (R, "'> ', predicate", "'< ', predicate"), 'C04-D5'),
    B('begin-response-writes-marker', (R, "        record.block_file = self._response_temp_file\n",
                                       "        record.block_file = self._response_temp_file\n        record.block_file.write(b'\\r\\n')\n"), 'C04-D5'),
    # ------------------------------------------------------------------ D6
    B('write-record-twice', (R, "            self._record_revisit(payload_offset)\n\n        self._recorder.write_record(self._response_record)\n",
                             "            self._record_revisit(payload_offset)\n\n        self._recorder.write_record(self._response_record)\n"
                             "        self._recorder.write_record(self._response_record)\n"), 'C04-D6'),
    B('write-record-only-without-url-table', (R,
      "            self._record_revisit(payload_offset)\n\n        self._recorder.write_record(self._response_record)",
      "            self._record_revisit(payload_offset)\n        else:\n            self._recorder.write_record(self._response_record)"), 'C04-D6'),
    B('concurrent-to-own-id', (R, "record.fields['WARC-Concurrent-To'] = self._request_record.fields[",
                               "record.fields['WARC-Concurrent-To'] = record.fields["), 'C04-D6'),
    B('response-block-not-rewound', (R,
      "\n\n        self._response_record.block_file.seek(0)\n        self._recorder.set_length_and_maybe_checksums(\n            self._response_record,\n",
      "\n\n        self._recorder.set_length_and_maybe_checksums(\n            self._response_record,\n"), 'C04-D6'),
    B('end-request-writes-response-record', (R, "self._recorder.write_record(self._request_record)",
                                             "self._recorder.write_record(self._response_record)"), 'C04-D6'),
    B('serialise-stops-at-blank-chunk', (F, "                if data == b'':\n                    break\n                yield data\n",
                                         "                if not data.strip():\n                    break\n                yield data\n"), 'C04-D6'),
    B('revisit-also-writes', (R, "            fields['WARC-Truncated'] = 'length'\n",
                              "            fields['WARC-Truncated'] = 'length'\n            self._recorder.write_record(self._response_record)\n"), 'C04-D6'),
    # ------------------------------------------------------------------ benign twins
    N('overrun-test-flipped', (S, "            if bytes_left < 0:\n                data = data[:bytes_left]",
                               "            if 0 > bytes_left:\n                data = data[:bytes_left]")),
    N('logging-before-report', (S, "            if not data:\n                break\n\n            " + NOTIFY + "\n\n            content_data",
                                "            if not data:\n                break\n\n            _logger.debug(__('Read {0} bytes.', len(data)))\n"
                                "            " + NOTIFY + "\n\n            content_data")),
    N('rename-local-close-reader', (S,
      "            data = yield from self._connection.read(self._read_size)\n\n            if not data:\n                break\n\n"
      "            " + NOTIFY + "\n\n            content_data = self._decompress_data(data)\n\n            if file:\n                file.write(content_data)\n\n"
      "                if file_is_async:\n                    yield from file.drain()\n\n        content_data = self._flush_decompressor()\n\n        if file:\n            file.write(content_data)\n",
      "            wire_bytes = yield from self._connection.read(self._read_size)\n\n            if wire_bytes == b'':\n                break\n\n"
      "            self._data_event_dispatcher.notify_read(wire_bytes)\n\n            content_data = self._decompress_data(wire_bytes)\n\n            if file:\n                file.write(content_data)\n\n"
      "                if file_is_async:\n                    yield from file.drain()\n\n        content_data = self._flush_decompressor()\n\n        if file:\n            file.write(content_data)\n")),
    N('chunk-header-tuple-order', [
        (C, "return chunk_size, chunk_size_hex", "return chunk_size_hex, chunk_size"),
        (S, "chunk_size, data = yield from reader.read_chunk_header()", "data, chunk_size = yield from reader.read_chunk_header()"),
    ]),
    N('trailer-bytes-accumulator', [
        (C, "        trailer_data_list = []\n", "        trailer = b''\n"),
        (C, "            trailer_data_list.append(trailer_data)\n", "            trailer += trailer_data\n"),
        (C, "        return b''.join(trailer_data_list)", "        return trailer"),
    ]),
    N('recorder-listeners-reordered', [
        (R, "        http_session.event_dispatcher.add_listener(\n            HTTPSession.Event.end_response, recorder_session.end_response)\n", ""),
        (R, "        http_session.event_dispatcher.add_listener(\n            HTTPSession.Event.begin_request, recorder_session.begin_request)\n",
         "        http_session.event_dispatcher.add_listener(\n            HTTPSession.Event.end_response, recorder_session.end_response)\n"
         "        http_session.event_dispatcher.add_listener(\n            HTTPSession.Event.begin_request, recorder_session.begin_request)\n"),
    ]),
    N('stream-field-receiver', (CL, "yield from stream.write_request(request, full_url=full_url)",
                                "yield from self._stream.write_request(request, full_url=full_url)")),
    N('callback-parameter-renamed', (R, "    def response_data(self, data: bytes):\n        self._response_temp_file.write(data)\n",
                                     "    def response_data(self, chunk: bytes):\n        self._response_temp_file.write(chunk)\n")),
    N('dispatcher-iterates-copy', (A, "        for callback in self._read_listeners:\n", "        for callback in tuple(self._read_listeners):\n")),
    N('end-response-early-return-style', (R,
      "        if self._url_table is not None:\n            self._record_revisit(payload_offset)\n\n        self._recorder.write_record(self._response_record)",
      "        if not self._url_table is None:\n            self._record_revisit(payload_offset)\n\n        record = self._response_record\n        self._recorder.write_record(self._response_record)")),
    N('request-data-local-alias', (S, "        data = request.to_bytes()\n\n        self._data_event_dispatcher.notify_write(data)\n",
                                   "        data = request.to_bytes()\n        _logger.debug(__('Request is {0} bytes.', len(data)))\n\n"
                                   "        self._data_event_dispatcher.notify_write(data)\n")),
    N('report-helper-extracted', [
        (S, "    @asyncio.coroutine\n    def _read_body_until_close(self, response, file):",
         "    def _report_read(self, raw_bytes):\n        self._data_event_dispatcher.notify_read(raw_bytes)\n\n"
         "    @asyncio.coroutine\n    def _read_body_until_close(self, response, file):"),
        (S, "            if not data:\n                break\n\n            " + NOTIFY + "\n\n            content_data",
         "            if not data:\n                break\n\n            self._report_read(data)\n\n            content_data"),
    ]),
    B('report-helper-filters', [
        (S, "    @asyncio.coroutine\n    def _read_body_until_close(self, response, file):",
         "    def _report_read(self, raw_bytes):\n        if raw_bytes.strip():\n            self._data_event_dispatcher.notify_read(raw_bytes)\n\n"
         "    @asyncio.coroutine\n    def _read_body_until_close(self, response, file):"),
        (S, "            if not data:\n                break\n\n            " + NOTIFY + "\n\n            content_data",
         "            if not data:\n                break\n\n            self._report_read(data)\n\n            content_data"),
    ], 'C04-D1'),
    N('equivalent-cut-spelling', (S, "data = data[:bytes_left]", "data = data[:len(data) + bytes_left]")),
]

# Reporting after decoding (but still once, unmodified, on every normal path) keeps the property: a failed decode aborts the
# exchange and no response record is written at all.  Kept as a benign twin (it used to be listed as a break).
for _e in [B('notify-after-decompress', (S,
      "            " + NOTIFY + "\n\n            content_data = self._decompress_data(data)\n",
      "            content_data = self._decompress_data(data)\n            " + NOTIFY + "\n"), None, all_=True)]:
    _e['kind'] = 'benign'
    _e['id'] = _e['id'].replace('C04/', 'C04/benign-')
    ENTRIES.append(_e)
