M = 'wpull/database/sqlmodel.py'
S = 'wpull/database/sqltable.py'
I = 'wpull/pipeline/session.py'
R = 'wpull/processor/rule.py'
W = 'wpull/processor/web.py'
P = 'wpull/processor/ftp.py'


def B(i, old, new, expect=None, rel=M):
    return {'id': 'C01/' + i, 'prop': 'C01', 'kind': 'break', 'edits': [(rel, old, new)], 'expect': expect}


def N(i, old, new, rel=M):
    return {'id': 'C01/benign-' + i, 'prop': 'C01', 'kind': 'benign', 'edits': [(rel, old, new)]}


ENTRIES = [
    B('not-unique', "        nullable=False, unique=True, index=True,\n        doc='Target URL to fetch'", "        nullable=False, index=True,\n        doc='Target URL to fetch'", 'C01-D1'),
    B('urlstring-not-unique', "url = Column(String, nullable=False, unique=True, index=True)", "url = Column(String, nullable=False, index=True)", 'C01-D1'),
    B('plain-insert', "query = insert(QueuedURL).prefix_with('OR IGNORE').values(bind_values)", "query = insert(QueuedURL).values(bind_values)", 'C01-D1', S),
    B('or-replace', "query = insert(QueuedURL).prefix_with('OR IGNORE').values(bind_values)", "query = insert(QueuedURL).prefix_with('OR REPLACE').values(bind_values)", 'C01-D1', S),
    B('raw-link', "            item_session.add_child_url(url_info.url, inline=link_context.inline,", "            item_session.add_child_url(link_context.link, inline=link_context.inline,", 'C01-D2', R),
    B('raw-url-attr', "            item_session.add_child_url(url_info.url, inline=link_context.inline,", "            item_session.add_child_url(url_info.raw, inline=link_context.inline,", 'C01-D2', R),
    # benign since listing names are quoted before the join (/repo 477c489): the joined string is the normal form already
    N('ftp-joined-link-is-normal', "self._item_session.add_child_url(linked_url_info.url, link_type=LinkType.directory)", "self._item_session.add_child_url(linked_url, link_type=LinkType.directory)", P),
    B('add-url-alters', "        add_url_info = AddURLInfo(url, url_properties, url_data)", "        add_url_info = AddURLInfo(url_info.raw, url_properties, url_data)", 'C01-D2', I),
    B('checkout-no-mark', "            url_record.status = Status.in_progress.value\n\n            return url_record.to_plain()", "            return url_record.to_plain()", 'C01-D3', S),
    B('checkout-mark-todo', "            url_record.status = Status.in_progress.value\n\n            return url_record.to_plain()", "            url_record.status = Status.todo.value\n\n            return url_record.to_plain()", 'C01-D3', S),
    B('checkout-wrong-status', "                url_record = session.query(QueuedURL).filter_by(\n                    status=filter_status.value).first()", "                url_record = session.query(QueuedURL).filter_by(\n                    status=Status.todo.value).first()", 'C01-D3', S),
    B('drain-swapped', "            url_record = self._app_session.factory['URLTable'].check_out(Status.todo)\n        except NotFound:\n            try:\n                url_record = self._app_session.factory['URLTable'].check_out(Status.error)",
      "            url_record = self._app_session.factory['URLTable'].check_out(Status.error)\n        except NotFound:\n            try:\n                url_record = self._app_session.factory['URLTable'].check_out(Status.todo)", 'C01-D4', I),
    B('drain-no-error', "        except NotFound:\n            try:\n                url_record = self._app_session.factory['URLTable'].check_out(Status.error)\n            except NotFound:\n                return None\n", "        except NotFound:\n            return None\n", 'C01-D4', I),
    B('catch-all-removed', "        if not self._item_session.is_processed:\n            _logger.debug('Was not processed. Skipping.')\n            self._item_session.skip()\n", "", 'C01-D5', W),
    B('handle-error-else-pass', "        else:\n            item_session.set_status(Status.error)\n\n        return action\n\n    def get_wait_time", "        else:\n            pass\n\n        return action\n\n    def get_wait_time", 'C01-D5', R),
    B('no-document-no-status', "        if action == Actions.NORMAL:\n            item_session.set_status(Status.skipped)\n\n        return action\n\n    def handle_intermediate_response", "        return action\n\n    def handle_intermediate_response", 'C01-D5', R),
    B('response-retry-ignored', "        action = self.consult_response_hook(item_session)\n\n        if action == Actions.RETRY:\n            item_session.set_status(Status.error)\n        elif action == Actions.FINISH:", "        action = self.consult_response_hook(item_session)\n\n        if action == Actions.FINISH:", 'C01-D5', R),
    B('web-branch-no-handler', "            self._file_writer_session.discard_document(response)\n\n            return self._result_rule.handle_no_document(\n                self._item_session\n            )", "            self._file_writer_session.discard_document(response)\n\n            return Actions.NORMAL", 'C01-D5', W),
    B('everything-intermediate', "        if self._web_client_session.redirect_tracker.is_redirect() or \\\n                self._web_client_session.loop_type() == LoopType.authentication:", "        if response.status_code >= 300 or \\\n                self._web_client_session.loop_type() == LoopType.authentication:", 'C01-D5', W),
    B('remote-error-no-status', "            self._log_error(request, error)\n\n            self._result_rule.handle_error(self._item_session, error)\n            wait_time = self._result_rule.get_wait_time(\n                self._item_session, error=error\n            )\n\n            if request.body:", "            self._log_error(request, error)\n\n            wait_time = self._result_rule.get_wait_time(\n                self._item_session, error=error\n            )\n\n            if request.body:", 'C01-D5', W),
    B('processed-without-checkin', "        self.finish()\n        self.app_session.factory['URLTable'].check_in(self.url_record.url, Status.skipped)\n\n        self._processed = True", "        self.finish()\n        self._processed = True", 'C01-D5', I),
    B('delegate-no-skip', "                scheme=repr(scheme)\n            )\n            item_session.skip()", "                scheme=repr(scheme)\n            )", 'C01-D5', 'wpull/processor/delegate.py'),
    N('insert-case', "query = insert(QueuedURL).prefix_with('OR IGNORE').values(bind_values)", "query = insert(QueuedURL).prefix_with('or ignore').values(bind_values)", S),
    N('drain-flat', "        try:\n            url_record = self._app_session.factory['URLTable'].check_out(Status.todo)\n        except NotFound:\n            try:\n                url_record = self._app_session.factory['URLTable'].check_out(Status.error)\n            except NotFound:\n                return None\n\n        item_session = ItemSession(self._app_session, url_record)\n        return item_session",
      "        table = self._app_session.factory['URLTable']\n        try:\n            url_record = table.check_out(Status.todo)\n        except NotFound:\n            try:\n                url_record = table.check_out(Status.error)\n            except NotFound:\n                return None\n\n        return ItemSession(self._app_session, url_record)", I),
    N('handle-error-reordered', "        elif isinstance(error, ConnectionRefused) and \\\n                not self.retry_connrefused:\n            item_session.set_status(Status.skipped)\n        elif isinstance(error, DNSNotFound) and \\\n                not self.retry_dns_error:\n            item_session.set_status(Status.skipped)",
      "        elif isinstance(error, DNSNotFound) and \\\n                not self.retry_dns_error:\n            item_session.set_status(Status.skipped)\n        elif isinstance(error, ConnectionRefused) and \\\n                not self.retry_connrefused:\n            item_session.set_status(Status.skipped)", R),
    N('rename-url-info', "linked_url_info", "child_info", P),
]
ENTRIES[-1]['all'] = True

ENTRIES += [
    N('redirect-hop-looked-up', "            if not verdict:\n                self._item_session.skip()\n                break\n\n            exit_early, wait_time",
      "            if not verdict:\n                self._item_session.skip()\n                break\n\n            if self._item_session.app_session.factory['URLTable'].contains(self._item_session.request.url_info.url):\n                _logger.debug('hop known')\n\n            exit_early, wait_time", W),
]

ENTRIES += [
    B('regress-prefilter-judges-parent', "            if not self._fetch_rule.consult_filters(url_info, child_url_record)[0]:", "            if not self._fetch_rule.consult_filters(item_session.request.url_info, child_url_record)[0]:", 'C01-D2', R),
    N('prefilter-verdict-local', "            if not self._fetch_rule.consult_filters(url_info, child_url_record)[0]:\n                continue\n", "            verdict = self._fetch_rule.consult_filters(url_info, child_url_record)[0]\n\n            if not verdict:\n                continue\n", R),
]

ENTRIES += [
    {'id': 'C01/regress-listing-name-unquoted', 'prop': 'C01', 'kind': 'break', 'expect': 'C01-D2', 'edits': [('wpull/processor/ftp.py',
      "                    linked_url = urljoin_safe(base_url, name)\n", "                    linked_url = urljoin_safe(base_url, file_entry.name)\n")]},
    {'id': 'C01/benign-listing-name-quoted-inline', 'prop': 'C01', 'kind': 'benign', 'edits': [('wpull/processor/ftp.py',
      "                    linked_url = urljoin_safe(base_url, name)\n", "                    linked_url = urljoin_safe(base_url, urllib.parse.quote(file_entry.name, safe='', errors='surrogateescape'))\n")]},
]
