P = 'wpull/pipeline/pipeline.py'
A = 'wpull/application/app.py'


def B(i, old, new, expect=None, rel=P):
    return {'id': 'C13/' + i, 'prop': 'C13', 'kind': 'break', 'edits': [(rel, old, new)], 'expect': expect}


def N(i, old, new, rel=P):
    return {'id': 'C13/benign-' + i, 'prop': 'C13', 'kind': 'benign', 'edits': [(rel, old, new)]}


ENTRIES = [
    B('task-loop-continue', "        for task in self._tasks:\n            yield from task.process(item)",
      "        for task in self._tasks:\n            if getattr(task, 'disabled', False):\n                continue\n            yield from task.process(item)", 'C13-D1'),
    B('task-loop-slice', "        for task in self._tasks:\n            yield from task.process(item)", "        for task in self._tasks[1:]:\n            yield from task.process(item)", 'C13-D1'),
    B('item-done-before', "        for task in self._tasks:\n            yield from task.process(item)\n\n        _logger.debug(__('Worker id {} Processed item {}', _worker_id, item))\n\n        yield from self._item_queue.item_done()",
      "        yield from self._item_queue.item_done()\n\n        for task in self._tasks:\n            yield from task.process(item)\n\n        _logger.debug(__('Worker id {} Processed item {}', _worker_id, item))", 'C13-D1'),
    B('item-done-missing', "        yield from self._item_queue.item_done()\n\n        return item", "        return item", 'C13-D1'),
    B('poison-after-tasks', "        if item == POISON_PILL:\n            return item\n\n        _logger.debug(__('Worker id {} Processing item {}', _worker_id, item))\n",
      "        _logger.debug(__('Worker id {} Processing item {}', _worker_id, item))\n", 'C13-D1'),
    B('get-no-notify', "        priority, entry_count, item = yield from self._queue.get()\n\n        yield from self._worker_ready_condition.acquire()\n        self._worker_ready_condition.notify_all()\n        self._worker_ready_condition.release()",
      "        priority, entry_count, item = yield from self._queue.get()", 'C13-D3'),
    B('item-done-no-notify', "        assert self._unfinished_items >= 0\n\n        yield from self._worker_ready_condition.acquire()\n        self._worker_ready_condition.notify_all()\n        self._worker_ready_condition.release()",
      "        assert self._unfinished_items >= 0\n\n        yield from self._worker_ready_condition.acquire()\n        self._worker_ready_condition.release()", 'C13-D3'),
    B('priorities-swapped', "ITEM_PRIORITY = 1\nPOISON_PRIORITY = 0", "ITEM_PRIORITY = 0\nPOISON_PRIORITY = 1", 'C13-D4'),
    B('result-not-checked', "            for task in done_tasks:\n                task.result()\n                self._worker_tasks.remove(task)", "            for task in done_tasks:\n                self._worker_tasks.remove(task)", 'C13-D5'),
    B('pills-minus-one', "        for dummy in range(len(self._worker_tasks)):\n            _logger.debug('Put poison pill.')", "        for dummy in range(len(self._worker_tasks) - 1):\n            _logger.debug('Put poison pill.')", 'C13-D4'),
    B('producer-cond-or', "            if not item and self._item_queue.unfinished_items == 0:", "            if not item or self._item_queue.unfinished_items == 0:", 'C13-D2'),
    B('producer-no-wait', "            elif not item:\n                yield from self._item_queue.wait_for_worker()", "            elif not item:\n                pass", 'C13-D2'),
    B('unfinished-double', "        self._unfinished_items += 1\n        self._queue.put_nowait((ITEM_PRIORITY", "        self._unfinished_items += 1\n        self._unfinished_items += 1\n        self._queue.put_nowait((ITEM_PRIORITY", 'C13-D2'),
    B('producer-error-swallowed', "                _logger.debug('Producer died.', exc_info=True)\n                self.stop()\n            raise\n", "                _logger.debug('Producer died.', exc_info=True)\n                self.stop()\n", 'C13-D5'),
    B('producer-error-no-stop', "                _logger.debug('Producer died.', exc_info=True)\n                self.stop()\n            raise\n", "                _logger.debug('Producer died.', exc_info=True)\n            raise\n", 'C13-D5'),
    B('shutdown-order', "        self._worker_tasks.clear()\n\n        yield from self._producer_task\n", "        self._worker_tasks.clear()\n", 'C13-D5'),
    B('state-stop-any', "        if self._state == PipelineState.running:\n            self._state = PipelineState.stopping", "        if self._state != PipelineState.stopping:\n            self._state = PipelineState.stopping", 'C13-D6'),
    B('app-stop-no-pipeline', "            if self._current_pipeline:\n                self._current_pipeline.stop()\n", "", 'C13-D7', A),
    B('grow-no-pill', "        elif change > 0:\n            _logger.debug('Put 1 poison pill to trigger more workers.')\n            self._item_queue.put_poison_nowait()", "        elif change > 0:\n            _logger.debug('Put 1 poison pill to trigger more workers.')", 'C13-D4'),
    B('shrink-one-pill', "            for dummy in range(abs(change)):\n                _logger.debug('Put poison pill for less workers.')\n                self._item_queue.put_poison_nowait()",
      "            _logger.debug('Put poison pill for less workers.')\n            self._item_queue.put_poison_nowait()", 'C13-D4'),
    B('put-item-no-block', "        while self._queue.qsize() > 0:", "        while self._queue.qsize() > 1:", 'C13-D3'),
    B('put-wrong-item', "            yield from self._item_queue.put_item(item)\n            return item", "            yield from self._item_queue.put_item(item)\n            yield from self._item_queue.put_item(item)\n            return item", 'C13-D1'),
    N('get-with-form', "        yield from self._worker_ready_condition.acquire()\n        self._worker_ready_condition.notify_all()\n        self._worker_ready_condition.release()\n\n        return item",
      "        with (yield from self._worker_ready_condition):\n            self._worker_ready_condition.notify_all()\n\n        return item"),
    N('log-in-loop', "        for task in self._tasks:\n            yield from task.process(item)", "        for task in self._tasks:\n            _logger.debug('task')\n            yield from task.process(item)"),
    N('queue-not-empty', "        while self._queue.qsize() > 0:", "        while not self._queue.empty():"),
    N('poison-is', "        if item == POISON_PILL:\n            return item\n\n        _logger", "        if item is POISON_PILL:\n            return item\n\n        _logger"),
]

ENTRIES += [
    B('regress-stop-wakes-supervisor', "            # The processing loop may be parked on the event while paused\n            self._unpaused_event.set()\n", "", 'C13-D8'),
    B('regress-start-sets-event', "            if self._concurrency:\n                self._unpaused_event.set()\n            else:\n                # A previous stop() leaves the event set\n                self._unpaused_event.clear()\n", "            self._unpaused_event.set()\n", 'C13-D8'),
    B('regress-start-does-not-clear-event', "            else:\n                # A previous stop() leaves the event set\n                self._unpaused_event.clear()\n", "", 'C13-D8'),
    B('supervisor-parks-by-concurrency', "        if self._worker_tasks:\n            wait_coroutine = asyncio.wait(", "        if self._concurrency:\n            wait_coroutine = asyncio.wait(", 'C13-D5'),
    B('supervisor-parks-always-when-paused', "        if self._worker_tasks:\n            wait_coroutine = asyncio.wait(", "        if self._worker_tasks and self._concurrency:\n            wait_coroutine = asyncio.wait(", 'C13-D5'),
    N('supervisor-guard-len', "        if self._worker_tasks:\n            wait_coroutine = asyncio.wait(", "        if len(self._worker_tasks) > 0:\n            wait_coroutine = asyncio.wait("),
    N('stop-wakes-first', "            self._state = PipelineState.stopping\n            self._producer.stop()\n            self._kill_workers()\n            # The processing loop may be parked on the event while paused\n            self._unpaused_event.set()\n",
      "            self._state = PipelineState.stopping\n            self._unpaused_event.set()\n            self._producer.stop()\n            self._kill_workers()\n"),
    N('start-event-guard-gt', "            if self._concurrency:\n                self._unpaused_event.set()\n            else:", "            if self._concurrency > 0:\n                self._unpaused_event.set()\n            else:"),
]

ENTRIES += [
    B('producer-stale-unfinished-count', "            item = yield from self.process_one()\n\n            if not item and self._item_queue.unfinished_items == 0:", "            unfinished_items = self._item_queue.unfinished_items\n            item = yield from self.process_one()\n\n            if not item and unfinished_items == 0:", 'C13-D2'),
    N('producer-fresh-unfinished-local', "            item = yield from self.process_one()\n\n            if not item and self._item_queue.unfinished_items == 0:", "            item = yield from self.process_one()\n            unfinished_items = self._item_queue.unfinished_items\n\n            if not item and unfinished_items == 0:"),
]

ENTRIES += [
    B('regress-stop-before-producer-started', "        if self._state != PipelineState.running:\n            # stop() was called before this task got to run; the producer\n            # would not know and carry on with no worker left.\n            return\n\n", "", 'C13-D8'),
    B('producer-start-guard-wrong-state', "        if self._state != PipelineState.running:\n            # stop() was called before this task got to run; the producer\n            # would not know and carry on with no worker left.\n            return\n", "        if self._state == PipelineState.stopped:\n            return\n", 'C13-D8'),
    N('producer-start-guard-positive', "        if self._state != PipelineState.running:\n            # stop() was called before this task got to run; the producer\n            # would not know and carry on with no worker left.\n            return\n\n        try:\n            yield from self._producer.process()\n",
      "        if self._state == PipelineState.running:\n            pass\n        else:\n            return\n\n        try:\n            yield from self._producer.process()\n"),
    N('producer-start-guard-stopping', "        if self._state != PipelineState.running:\n            # stop() was called", "        if self._state in (PipelineState.stopping, PipelineState.stopped):\n            # stop() was called"),
    N('shutdown-results-retrieved', "            yield from asyncio.wait(self._worker_tasks)\n", "            done = (yield from asyncio.wait(self._worker_tasks))[0]\n            for task in done:\n                task.exception()\n"),
]

RM = 'wpull/application/tasks/resmon.py'
_RM_OLD = "        if resmon_semaphore.locked():\n            use_log = False\n        else:\n            use_log = True\n            yield from resmon_semaphore.acquire()\n"
ENTRIES += [
    {'id': 'C13/resmon-acquire-unconditional', 'prop': 'C13', 'kind': 'break', 'expect': 'C13-D8',
     'edits': [(RM, _RM_OLD, "        use_log = not resmon_semaphore.locked()\n        yield from resmon_semaphore.acquire()\n")]},
    {'id': 'C13/resmon-release-dropped', 'prop': 'C13', 'kind': 'break', 'expect': 'C13-D8',
     'edits': [(RM, "        if use_log:\n            resmon_semaphore.release()\n", "        pass\n")]},
    {'id': 'C13/benign-resmon-flag-first', 'prop': 'C13', 'kind': 'benign',
     'edits': [(RM, _RM_OLD, "        use_log = not resmon_semaphore.locked()\n\n        if use_log:\n            yield from resmon_semaphore.acquire()\n")]},
    {'id': 'C13/benign-resmon-try-finally', 'prop': 'C13', 'kind': 'benign',
     'edits': [(RM, "        yield from self._polling_sleep(resource_monitor, log=use_log)\n\n        if use_log:\n            resmon_semaphore.release()\n",
                "        try:\n            yield from self._polling_sleep(resource_monitor, log=use_log)\n        finally:\n            if use_log:\n                resmon_semaphore.release()\n")]},
]
