"""Self-test corpus for C16 (request on the wire matches the URL being fetched).

Written for the tree WITH planned fix 0007 (307/308 replay drops Host / credentials); entries
whose `old` text only exists on one of the two trees are reported `skipped` on the other.
"""
REQ = 'wpull/protocol/http/request.py'
ABS = 'wpull/protocol/abstract/request.py'
WEB = 'wpull/protocol/http/web.py'
STREAM = 'wpull/protocol/http/stream.py'
REDIR = 'wpull/protocol/http/redirect.py'
NV = 'wpull/namevalue.py'
COOKIE = 'wpull/cookiewrapper.py'
PWEB = 'wpull/processor/web.py'
URL = 'wpull/url.py'


def B(i, rel, old, new, expect=None):
    return {'id': 'C16/' + i, 'prop': 'C16', 'kind': 'break', 'edits': [(rel, old, new)], 'expect': expect}


def B2(i, edits, expect=None):
    return {'id': 'C16/' + i, 'prop': 'C16', 'kind': 'break', 'edits': edits, 'expect': expect}


def N(i, rel, old, new):
    return {'id': 'C16/benign-' + i, 'prop': 'C16', 'kind': 'benign', 'edits': [(rel, old, new)]}


PREPARE_OLD = """        url_info = self.url_info

        if 'Host' not in self.fields:
            self.fields['Host'] = url_info.hostname_with_port

        if not full_url:
            if url_info.query:
                self.resource_path = '{0}?{1}'.format(url_info.path, url_info.query)
            else:
                self.resource_path = url_info.path
        else:
            self.resource_path = url_info.url
"""

PREPARE_REFACTORED = """        info = self.url_info

        if full_url:
            self.resource_path = info.url
        elif not info.query:
            self.resource_path = info.path
        else:
            self.resource_path = info.path + '?' + info.query

        _ = None
        if not ('Host' in self.fields):
            self.fields['Host'] = info.hostname_with_port
"""

TO_BYTES_OLD = """        status = '{0} {1} {2}'.format(self.method, self.resource_path, self.version).encode(self.encoding)
        fields = self.fields.to_bytes(errors='replace')

        return b'\\r\\n'.join([status, fields, b''])
"""

REPLAY_FIXED = """                request = self._original_request.copy()
                request.url = url

                # The copy was prepared for (and authenticated to) the
                # previous host. Host must be derived from the new URL, and
                # credentials or cookies must not follow to another host.
                request.fields.pop('Host', None)

                if (request.url_info.scheme,
                        request.url_info.hostname_with_port) != \\
                        (self._original_request.url_info.scheme,
                         self._original_request.url_info.hostname_with_port):
                    # hostname_with_port leaves default ports out: without
                    # the scheme https://h/ and http://h/ would look alike
                    request.fields.pop('Authorization', None)
                    request.fields.pop('Cookie', None)
            else:
                request = self._request_factory(url)

            request.prepare_for_send()
"""

REPLAY_FIXED_RENAMED = """                replay = self._original_request.copy()
                previous_host = self._original_request.url_info.hostname_with_port
                replay.url = url
                _logger.debug('Replaying the original request.')

                if previous_host == replay.url_info.hostname_with_port and \\
                        self._original_request.url_info.scheme == replay.url_info.scheme:
                    pass
                else:
                    del replay.fields['Cookie']
                    replay.fields.pop('Authorization', None)

                replay.fields['Host'] = replay.url_info.hostname_with_port
                request = replay
            else:
                request = self._request_factory(url)

            request.prepare_for_send()
"""

REPLAY_PINNED = """                request = self._original_request.copy()
                request.url = url
            else:
                request = self._request_factory(url)
"""

START_GATE = """        if request.url_info.password or \\
                request.url_info.hostname_with_port in self._hostnames_with_auth:
            self._add_basic_auth_header(request)
"""

REFERRER_OLD = """        if url_record.parent_url.startswith('https://') and \\
                url_record.url_info.scheme == 'http':
            return

"""

ENTRIES = [
    # ------------------------------------------------------------------ D1
    B('target-raw-url', REQ, "            self.resource_path = url_info.url\n", "            self.resource_path = self.url\n", 'C16-D1'),
    B('host-raw', REQ, "self.fields['Host'] = url_info.hostname_with_port", "self.fields['Host'] = url_info.host", 'C16-D1'),
    B('query-test-wrong-field', REQ, "            if url_info.query:\n", "            if url_info.fragment:\n", 'C16-D1'),
    B('full-url-inverted', REQ, "        if not full_url:\n            if url_info.query:", "        if full_url:\n            if url_info.query:", 'C16-D1'),
    B('host-missing-for-proxy', REQ, "        url_info = self.url_info\n\n        if 'Host' not in self.fields:",
      "        url_info = self.url_info\n\n        if 'Host' not in self.fields and not full_url:", 'C16-D1'),
    B('to-bytes-bare-lf', REQ, TO_BYTES_OLD, TO_BYTES_OLD.replace("b'\\r\\n'.join", "b'\\n'.join"), 'C16-D1'),
    B('to-bytes-target-first', REQ, "'{0} {1} {2}'.format(self.method, self.resource_path, self.version)",
      "'{1} {0} {2}'.format(self.method, self.resource_path, self.version)", 'C16-D1'),
    B('url-setter-keeps-old-parse', ABS, "        self._url_info = URLInfo.parse(url_str)\n",
      "        if self._url_info is None:\n            self._url_info = URLInfo.parse(url_str)\n", 'C16-D1'),
    B('stream-no-prepare', STREAM, "            request.prepare_for_send(full_url=full_url)\n", "            pass\n", 'C16-D1'),
    B('stream-full-url-dropped', STREAM, "request.prepare_for_send(full_url=full_url)", "request.prepare_for_send()", 'C16-D1'),
    B('stream-prepare-after-serialise', STREAM,
      "        if hasattr(request, 'prepare_for_send'):\n            request.prepare_for_send(full_url=full_url)\n\n        if self._ignore_length:\n            request.fields['Connection'] = 'close'\n\n        data = request.to_bytes()\n",
      "        if self._ignore_length:\n            request.fields['Connection'] = 'close'\n\n        data = request.to_bytes()\n\n        if hasattr(request, 'prepare_for_send'):\n            request.prepare_for_send(full_url=full_url)\n",
      'C16-D1'),
    B('field-lines-bare-lf', NV, "        pairs.append('')\n        return '\\r\\n'.join(pairs)", "        pairs.append('')\n        return '\\n'.join(pairs)", 'C16-D1'),
    B('request-fields-wrapped', REQ, "        self.resource_path = resource_path\n        self.version = version\n        self.fields = NameValueRecord(encoding='latin-1')",
      "        self.resource_path = resource_path\n        self.version = version\n        self.fields = NameValueRecord(encoding='latin-1', wrap_width=78)", 'C16-D1'),
    B('host-port-dropped-for-443', URL, "        if default_port != self.port:\n", "        if default_port != self.port and self.port != 443:\n", 'C16-D1'),
    B('host-ipv6-brackets-dropped', URL, "            hostname = '[{}]'.format(self.hostname)\n", "            hostname = self.hostname\n", 'C16-D1'),
    B('setitem-appends', NV, "        self._map[normalized_name][:] = (value,)\n", "        self._map[normalized_name].append(value)\n", 'C16-D1'),
    B('delitem-raw-name', NV, "        del self._map[normalize_name(name, self._normalize_overrides)]\n", "        del self._map[name]\n", 'C16-D1'),
    # ------------------------------------------------------------------ D2
    B('replay-url-after-cleanup', WEB, REPLAY_FIXED, REPLAY_FIXED.replace("                request.url = url\n\n", "\n").replace(
        "                    request.fields.pop('Cookie', None)\n", "                    request.fields.pop('Cookie', None)\n\n                request.url = url\n"), 'C16-D2'),
    B('regress-sticky-host', WEB, "                request.fields.pop('Host', None)\n", "", 'C16-D2'),
    B('regress-sticky-cookie', WEB, "                    request.fields.pop('Cookie', None)\n", "", 'C16-D2'),
    B('regress-whole-fix', WEB, REPLAY_FIXED, REPLAY_PINNED + "\n            request.prepare_for_send()\n", 'C16-D2'),
    B('host-test-inverted', WEB, "                        request.url_info.hostname_with_port) != \\\n", "                        request.url_info.hostname_with_port) == \\\n", 'C16-D2'),
    B('host-test-against-itself', WEB, "                        (self._original_request.url_info.scheme,\n                         self._original_request.url_info.hostname_with_port):\n",
      "                        (request.url_info.scheme,\n                         request.url_info.hostname_with_port):\n", 'C16-D2'),
    B('regress-replay-scheme-not-compared', WEB, "                if (request.url_info.scheme,\n                        request.url_info.hostname_with_port) != \\\n                        (self._original_request.url_info.scheme,\n                         self._original_request.url_info.hostname_with_port):\n",
      "                if request.url_info.hostname_with_port != \\\n                        self._original_request.url_info.hostname_with_port:\n", 'C16-D2'),
    N('replay-origin-test-or-form', WEB, "                if (request.url_info.scheme,\n                        request.url_info.hostname_with_port) != \\\n                        (self._original_request.url_info.scheme,\n                         self._original_request.url_info.hostname_with_port):\n",
      "                if request.url_info.hostname_with_port != self._original_request.url_info.hostname_with_port \\\n                        or request.url_info.scheme != self._original_request.url_info.scheme:\n"),
    B('redirect-reuses-sent-request', WEB, "                request = self._request_factory(url)\n",
      "                request = self._next_request\n                request.url_info = URLInfo.parse(url)\n", 'C16-D2'),
    B('authentication-retry-retargeted', WEB, "        self._add_basic_auth_header(self._next_request)\n        self._loop_type = LoopType.authentication\n",
      "        self._next_request.url_info = response.request.url_info\n        self._add_basic_auth_header(self._next_request)\n        self._loop_type = LoopType.authentication\n", 'C16-D2'),
    B('copy-shallow', REQ, "        return copy.deepcopy(self)\n", "        return copy.copy(self)\n", 'C16-D2'),
    # ------------------------------------------------------------------ D3
    B('referer-raw-parent', PWEB, "        request.fields['Referer'] = url_record.parent_url\n",
      "        request.fields['Referer'] = url_record.parent_url_info.raw\n", 'C16-D3'),
    B('referer-from-raw-location', WEB, "            request.prepare_for_send()\n        except ValueError as error:",
      "            request.fields['Referer'] = self._redirect_tracker.next_location(raw=True)\n            request.prepare_for_send()\n        except ValueError as error:", 'C16-D3'),
    B('auth-encodebytes', WEB, "            auth_string = base64.b64encode(\n", "            auth_string = base64.encodebytes(\n", 'C16-D3'),
    B('cookie-readd-without-clear', COOKIE, "        request.fields.clear()\n\n", "", 'C16-D3'),
    B('cookie-readd-other-request', COOKIE, "        new_request = convert_http_request(request, referrer_host)\n        self._cookie_jar.add_cookie_header(new_request)\n\n        request.fields.clear()",
      "        new_request = convert_http_request(request, referrer_host)\n        self._cookie_jar.add_cookie_header(new_request)\n        new_request = self._last_request\n\n        request.fields.clear()", 'C16-D3'),
    B('parse-split-on-lf-only', NV, "        lines = split_lines(unfold_lines(string))\n", "        lines = unfold_lines(string).split('\\n')\n", 'C16-D3'),
    B('split-lines-keeps-bare-cr', NV, "    lines = string.replace('\\r\\n', '\\n').replace('\\r', '\\n').split('\\n')\n", "    lines = string.replace('\\r\\n', '\\n').split('\\n')\n", 'C16-D3'),
    B('post-content-type-from-record', PWEB, "        request.fields['Content-Type'] = 'application/x-www-form-urlencoded'\n",
      "        request.fields['Content-Type'] = self._item_session.url_record.post_data\n", 'C16-D3'),
    B('fields-update-from-response', WEB, "        self._next_request = request\n\n        _logger.debug('Updated next redirect request",
      "        request.fields.update(self._redirect_tracker._response.fields)\n        self._next_request = request\n\n        _logger.debug('Updated next redirect request", 'C16-D3'),
    # ------------------------------------------------------------------ D4
    B('redirect-raw-location', WEB, "            url = self._redirect_tracker.next_location()\n", "            url = self._redirect_tracker.next_location(raw=True)\n", 'C16-D4'),
    B('redirect-valueerror-unhandled', WEB, "        except ValueError as error:\n            raise ProtocolError('Invalid redirect location.') from error",
      "        except KeyError as error:\n            raise ProtocolError('Invalid redirect location.') from error", 'C16-D4'),
    B('redirect-valueerror-swallowed', WEB, "        except ValueError as error:\n            raise ProtocolError('Invalid redirect location.') from error",
      "        except ValueError as error:\n            _logger.debug('Invalid redirect location.')\n            return", 'C16-D4'),
    B('request-init-raw-url', REQ, "        if url:\n            self.url = url\n", "        if url:\n            self._url = url\n", 'C16-D4'),
    B('urljoin-base-raw', REDIR, "wpull.url.urljoin(self._response.request.url_info.url,", "wpull.url.urljoin(self._response.request.url,", 'C16-D4'),
    B('location-not-joined', REDIR, "            return wpull.url.urljoin(self._response.request.url_info.url,\n                                     location)",
      "            return location", 'C16-D4'),
    # ------------------------------------------------------------------ D5
    B('auth-any-known-host', WEB, START_GATE, START_GATE.replace(
        "request.url_info.hostname_with_port in self._hostnames_with_auth", "self._hostnames_with_auth"), 'C16-D5'),
    B('auth-unconditional', WEB, START_GATE, "        self._add_basic_auth_header(request)\n", 'C16-D5'),
    B('auth-on-any-client-error', WEB, "response.status_code == http.client.UNAUTHORIZED", "response.status_code >= 400", 'C16-D5'),
    B('auth-host-without-port', WEB, "self._hostnames_with_auth.add(self._next_request.url_info.hostname_with_port)",
      "self._hostnames_with_auth.add(self._next_request.url_info.hostname)", 'C16-D5'),
    B('auth-on-redirect-target', WEB, "            request.prepare_for_send()\n        except ValueError as error:",
      "            request.prepare_for_send()\n            self._add_basic_auth_header(self._original_request)\n        except ValueError as error:", 'C16-D5'),
    B('referer-scheme-test-wrong', PWEB, "url_record.url_info.scheme == 'http':\n            return", "url_record.url_info.scheme == 'https':\n            return", 'C16-D5'),
    B('referer-suppression-noop', PWEB, "                url_record.url_info.scheme == 'http':\n            return\n", "                url_record.url_info.scheme == 'http':\n            pass\n", 'C16-D5'),
    B('referer-https-test-inverted', PWEB, "        if url_record.parent_url.startswith('https://') and \\\n", "        if not url_record.parent_url.startswith('https://') and \\\n", 'C16-D5'),
    B('auth-from-original-request', WEB, "        password = request.url_info.password or request.password\n",
      "        password = request.url_info.password or self._original_request.password\n", 'C16-D5'),
    B('referer-root-url', PWEB, "        request.fields['Referer'] = url_record.parent_url\n", "        request.fields['Referer'] = url_record.root_url\n", 'C16-D5'),
    # ------------------------------------------------------------------ benign
    N('replay-host-popped-before-store', WEB, "                request.url = url\n\n                # The copy was prepared for (and authenticated to) the\n                # previous host. Host must be derived from the new URL, and\n                # credentials or cookies must not follow to another host.\n                request.fields.pop('Host', None)\n",
      "                request.fields.pop('Host', None)\n                request.url = url\n"),
    N('replay-host-dropped-with-credentials', WEB, "                request.fields.pop('Host', None)\n\n                if (request.url_info.scheme,\n                        request.url_info.hostname_with_port) != \\\n                        (self._original_request.url_info.scheme,\n                         self._original_request.url_info.hostname_with_port):\n                    # hostname_with_port leaves default ports out: without\n                    # the scheme https://h/ and http://h/ would look alike\n",
      "                if (request.url_info.scheme,\n                        request.url_info.hostname_with_port) != \\\n                        (self._original_request.url_info.scheme,\n                         self._original_request.url_info.hostname_with_port):\n                    # hostname_with_port leaves default ports out: without\n                    # the scheme https://h/ and http://h/ would look alike\n                    request.fields.pop('Host', None)\n"),
    {'id': 'C16/benign-host-always-recomputed', 'prop': 'C16', 'kind': 'benign', 'edits': [
        (REQ, "        if 'Host' not in self.fields:\n            self.fields['Host'] = url_info.hostname_with_port\n",
         "        self.fields['Host'] = url_info.hostname_with_port\n"),
        (WEB, "                request.fields.pop('Host', None)\n", "")]},
    N('hostname-with-port-respelled', URL, "        if default_port != self.port:\n            return '{}:{}'.format(hostname, self.port)\n        else:\n            return hostname\n",
      "        if self.port == default_port:\n            return hostname\n\n        return hostname + ':' + str(self.port)\n"),
    N('response-request-alias', 'wpull/protocol/http/client.py', "        response.request = request\n", "        response.request = self._request\n"),
    N('prepare-refactored', REQ, PREPARE_OLD, PREPARE_REFACTORED),
    N('to-bytes-concat', REQ, TO_BYTES_OLD,
      "        line = (self.method + ' ' + self.resource_path + ' ' + self.version).encode(self.encoding)\n"
      "        header = self.fields.to_bytes(errors='replace')\n\n        return line + b'\\r\\n' + header + b'\\r\\n'\n"),
    N('replay-fix-respelled', WEB, REPLAY_FIXED, REPLAY_FIXED_RENAMED),
    N('replay-fix-unconditional-drop', WEB, "                if (request.url_info.scheme,\n                        request.url_info.hostname_with_port) != \\\n                        (self._original_request.url_info.scheme,\n                         self._original_request.url_info.hostname_with_port):\n                    # hostname_with_port leaves default ports out: without\n                    # the scheme https://h/ and http://h/ would look alike\n                    request.fields.pop('Authorization', None)\n                    request.fields.pop('Cookie', None)\n",
      "                request.fields.pop('Authorization', None)\n                request.fields.pop('Cookie', None)\n"),
    N('start-gate-local', WEB, START_GATE,
      "        url_info = request.url_info\n        known_host = url_info.hostname_with_port in self._hostnames_with_auth\n\n"
      "        if url_info.password or known_host:\n            _logger.debug('Adding credentials.')\n            self._add_basic_auth_header(request)\n"),
    N('status-comparison-flipped', WEB, "elif response.status_code == http.client.UNAUTHORIZED and self._next_request.password:",
      "elif http.client.UNAUTHORIZED == response.status_code and self._next_request.password:"),
    N('referrer-nested-if', PWEB, REFERRER_OLD,
      "        from_https = url_record.parent_url.startswith('https://')\n\n"
      "        if from_https and url_record.url_info.scheme == 'http':\n"
      "            return\n\n"),
    N('field-line-concat', NV, "                pairs.append('{0}: {1}'.format(name, value))", "                pairs.append(name + ': ' + value)"),
    N('redirect-handler-bare-raise-type', WEB, "        except ValueError as error:\n            raise ProtocolError('Invalid redirect location.') from error",
      "        except (ValueError, TypeError) as error:\n            _logger.debug('Bad redirect.')\n            raise ProtocolError('Invalid redirect location.') from error"),
    N('stream-early-return-style', STREAM, "        if hasattr(request, 'prepare_for_send'):\n            request.prepare_for_send(full_url=full_url)\n\n        if self._ignore_length:",
      "        can_prepare = True\n        if hasattr(request, 'prepare_for_send'):\n            request.prepare_for_send(full_url)\n\n        if self._ignore_length:"),
    N('post-length-local', PWEB, "        request.fields['Content-Length'] = str(len(data))\n",
      "        length = len(data)\n        request.fields['Content-Length'] = '{}'.format(length)\n"),
]

PW = 'wpull/processor/web.py'
ENTRIES += [
    B('regress-referer-keeps-userinfo', PW, "        if url_record.parent_url_info.userinfo:\n", "        if False:\n", 'C16-D5'),
    B('referer-rebuilt-from-authority', PW, "                url_record.parent_url_info.hostname_with_port,\n", "                url_record.parent_url_info.authority,\n", 'C16-D5'),
    {'id': 'C16/benign-referer-userinfo-test-on-username', 'prop': 'C16', 'kind': 'benign', 'edits': [(PW, "        if url_record.parent_url_info.userinfo:\n", "        if url_record.parent_url_info.username or url_record.parent_url_info.password:\n")]},
]
