P = 'wpull/network/pool.py'
A = 'wpull/protocol/abstract/client.py'


def B(i, old, new, expect=None, rel=P):
    return {'id': 'C12/' + i, 'prop': 'C12', 'kind': 'break', 'edits': [(rel, old, new)], 'expect': expect}


def N(i, old, new, rel=P):
    return {'id': 'C12/benign-' + i, 'prop': 'C12', 'kind': 'benign', 'edits': [(rel, old, new)]}


ENTRIES = [
    B('regress-acquire-finally',
      "            self.busy.add(connection)\n        finally:\n            # Also reached when the waiter is cancelled: wait() re-acquires\n            # the lock before raising.\n            self._condition.release()",
      "            self.busy.add(connection)\n        except KeyError:\n            pass\n        self._condition.release()", 'C12-D1'),
    B('regress-release-finally', "            self._condition.notify()\n        finally:\n            self._condition.release()",
      "            self._condition.notify()\n        except AttributeError:\n            raise\n        self._condition.release()", 'C12-D1'),
    B('regress-waiter', "        try:\n            connection = yield from host_pool.acquire()\n        finally:\n",
      "        try:\n            connection = yield from host_pool.acquire()\n        except KeyError:\n", 'C12-D2'),
    B('bound-le', "elif len(self.busy) < self.max_connections:", "elif len(self.busy) <= self.max_connections:", 'C12-D3'),
    B('no-notify', "                self.ready.add(connection)\n\n            self._condition.notify()\n", "                self.ready.add(connection)\n", 'C12-D4'),
    B('notify-before-add', "            if reuse:\n                self.ready.add(connection)\n\n            self._condition.notify()\n",
      "            self._condition.notify()\n\n            if reuse:\n                self.ready.add(connection)\n", None),
    B('busy-add-early', "        try:\n            while True:\n                if self.ready:", "        try:\n            self.busy.add(None)\n            while True:\n                if self.ready:", 'C12-D3'),
    B('waiter-dec-deleted', "            if key in self._host_pool_waiters:\n                self._host_pool_waiters[key] -= 1\n", "            pass\n", 'C12-D2'),
    B('session-no-register', "        self._connections.add(connection)\n\n        return connection", "        return connection", 'C12-D7', A),
    B('exit-no-recycle-on-error', "            error = True\n            self.abort()\n        else:\n            error = False\n\n        self.recycle()",
      "            error = True\n            self.abort()\n        else:\n            error = False\n            self.recycle()", 'C12-D7', A),
    B('clean-ignores-waiters', "if not self._host_pool_waiters[key] and pool.empty():", "if pool.empty():", 'C12-D6'),
    B('clean-one-map', "                    del self._host_pools[key]\n                    del self._host_pool_waiters[key]\n\n    def close",
      "                    del self._host_pools[key]\n\n    def close", 'C12-D6'),
    B('foreign-await-under-lock', "        with (yield from self._lock):\n            for connection in tuple(self.ready):",
      "        with (yield from self._lock):\n            yield from asyncio.sleep(0)\n            for connection in tuple(self.ready):", 'C12-D5'),
    B('external-mutation', "    def count(self) -> int:\n        '''Return number of connections.'''\n        counter = 0\n",
      "    def count(self) -> int:\n        '''Return number of connections.'''\n        counter = 0\n        for pool in self._host_pools.values():\n            pool.busy.clear()\n", 'C12-D3'),
    B('ready-pop-outside-lock', "        yield from self._condition.acquire()\n\n        try:\n            while True:",
      "        if self.ready:\n            self.busy.add(self.ready.pop())\n        yield from self._condition.acquire()\n\n        try:\n            while True:", 'C12-D3'),
    B('limit-not-wired', "max_connections=self._max_host_count", "max_connections=self._max_count", 'C12-D6'),
    B('recycle-skips', "        for connection in self._connections:\n            self._connection_pool.no_wait_release(connection)",
      "        for connection in self._connections:\n            if connection.closed():\n                continue\n            self._connection_pool.no_wait_release(connection)", 'C12-D7', A),
    B('lock-order-cycle', "        with (yield from self._lock):\n            for connection in tuple(self.ready):",
      "        with (yield from self._lock):\n            yield from self._condition.acquire()\n            for connection in tuple(self.ready):", None),
    N('with-form-release', "        yield from self._condition.acquire()\n\n        try:\n            self.busy.remove(connection)\n\n            if reuse:\n                self.ready.add(connection)\n\n            self._condition.notify()\n        finally:\n            self._condition.release()",
      "        with (yield from self._condition):\n            self.busy.remove(connection)\n\n            if reuse:\n                self.ready.add(connection)\n\n            self._condition.notify()"),
    N('bound-flipped', "elif len(self.busy) < self.max_connections:", "elif self.max_connections > len(self.busy):"),
    N('logging-in-region', "            self.busy.add(connection)\n        finally:", "            self.busy.add(connection)\n            _logger.debug('busy %s', len(self.busy))\n        finally:"),
    N('notify-all', "                self.ready.add(connection)\n\n            self._condition.notify()\n", "                self.ready.add(connection)\n\n            self._condition.notify_all()\n"),
    B('regress-cancelled-waiter-renotify', "                    try:\n                        yield from self._condition.wait()\n                    except asyncio.CancelledError:\n                        # The wake-up may already have been given to this\n                        # waiter; pass it on instead of losing it.\n                        self._condition.notify()\n                        raise\n", "                    yield from self._condition.wait()\n", 'C12-D8'),
    B('regress-release-shield', "                yield from asyncio.shield(release_task)", "                yield from release_task", 'C12-D8'),
    B('regress-proxy-release-on-failure', "            connection.close()\n            super().no_wait_release(connection)\n            raise\n", "            raise\n", 'C12-D8', 'wpull/proxy/client.py'),
    B('regress-proxy-acquire-return', "        connection = yield from self.acquire_proxy(\n            host, port, use_ssl=use_ssl, host_key=host_key)\n\n        return connection\n", "        yield from self.acquire_proxy(\n            host, port, use_ssl=use_ssl, host_key=host_key)\n", 'C12-D8', 'wpull/proxy/client.py'),
    N('cancelled-waiter-renotify-base-exception', "                    except asyncio.CancelledError:\n", "                    except BaseException:\n"),
    N('proxy-release-before-close', "            connection.close()\n            super().no_wait_release(connection)\n            raise\n", "            super().no_wait_release(connection)\n            connection.close()\n            raise\n", 'wpull/proxy/client.py'),
]

ENTRIES += [
    B('regress-websession-notify-before-recycle', "            self._current_session.recycle()\n            self._current_session.event_dispatcher.notify(\n                self._current_session.SessionEvent.end_session, error=error)\n",
      "            self._current_session.event_dispatcher.notify(\n                self._current_session.SessionEvent.end_session, error=error)\n            self._current_session.recycle()\n", 'C12-D7', 'wpull/protocol/http/web.py'),
    B('basesession-notify-before-recycle', "        self.recycle()\n        self.event_dispatcher.notify(self.SessionEvent.end_session, error=error)\n", "        self.event_dispatcher.notify(self.SessionEvent.end_session, error=error)\n        self.recycle()\n", 'C12-D7', 'wpull/protocol/abstract/client.py'),
    N('websession-notify-in-finally', "            self._current_session.recycle()\n            self._current_session.event_dispatcher.notify(\n                self._current_session.SessionEvent.end_session, error=error)\n",
      "            try:\n                self._current_session.event_dispatcher.notify(\n                    self._current_session.SessionEvent.end_session, error=error)\n            finally:\n                self._current_session.recycle()\n", 'wpull/protocol/http/web.py'),
]

H = 'wpull/protocol/http/client.py'
ENTRIES += [
    # abort() runs after recycle() on every exit of the web session: a handle kept past the give-back must not be acted on
    B('abort-closes-kept-stream', "        super().abort()\n\n        self._session_state = SessionState.aborted\n",
      "        super().abort()\n\n        if self._stream:\n            self._stream.close()\n\n        self._session_state = SessionState.aborted\n", 'C12-D7', H),
    N('abort-closes-stream-recycle-clears', "        super().abort()\n\n        self._session_state = SessionState.aborted\n\n    def recycle(self):\n        if not self.done():\n            super().abort()\n            warnings.warn(_('HTTP session did not complete.'))\n\n        super().recycle()\n",
      "        super().abort()\n\n        if self._stream:\n            self._stream.close()\n\n        self._session_state = SessionState.aborted\n\n    def recycle(self):\n        if not self.done():\n            super().abort()\n            warnings.warn(_('HTTP session did not complete.'))\n\n        super().recycle()\n        self._stream = None\n", H),
]

ENTRIES += [
    B('exit-abort-only-for-exception', "        if exc_val and not isinstance(exc_val, StopIteration):", "        if isinstance(exc_val, Exception) and \\\n                not isinstance(exc_val, StopIteration):", 'C12-D8', A),
    N('exit-abort-type-is-not-none', "        if exc_val and not isinstance(exc_val, StopIteration):", "        if exc_type is not None and not issubclass(exc_type, StopIteration):", A),
    N('exit-abort-baseexception', "        if exc_val and not isinstance(exc_val, StopIteration):", "        if isinstance(exc_val, BaseException) and not isinstance(exc_val, StopIteration):", A),
]

PX = 'wpull/proxy/client.py'
ENTRIES += [
    B('proxy-map-key-swapped', "            ssl_connection = connection.wrapped_connection\n            self._connection_map[ssl_connection] = connection\n", "            ssl_connection = connection.wrapped_connection\n            self._connection_map[connection] = ssl_connection\n", 'C12-D7', PX),
    {'id': 'C16/proxy-pooled-under-proxy-address', 'prop': 'C16', 'kind': 'break', 'expect': 'C16-D2', 'edits': [(PX,
      "        host_key = host_key or (host, port, use_ssl)\n        proxy_host, proxy_port = self._proxy_address\n", "        proxy_host, proxy_port = self._proxy_address\n        host_key = host_key or (proxy_host, proxy_port, use_ssl)\n")]},
    N('proxy-host-key-after-address', "        host_key = host_key or (host, port, use_ssl)\n        proxy_host, proxy_port = self._proxy_address\n", "        proxy_host, proxy_port = self._proxy_address\n        host_key = host_key or (host, port, use_ssl)\n", PX),
]
