U = 'wpull/url.py'


def B(i, old, new, expect=None, rel=U):
    return {'id': 'C11/' + i, 'prop': 'C11', 'kind': 'break', 'edits': [(rel, old, new)], 'expect': expect}


def N(i, old, new, rel=U):
    return {'id': 'C11/benign-' + i, 'prop': 'C11', 'kind': 'benign', 'edits': [(rel, old, new)]}


ENTRIES = [
    B('regress-recursion', "    return dict_obj\n", "    return query_to_map(text)\n", 'C11-D2'),
    B('keyerror-raise', "                raise ValueError('Port number invalid')", "                raise KeyError('Port number invalid')", 'C11-D1'),
    B('port-lookup-unguarded',
      "        info = URLInfo()\n        info.encoding = encoding\n",
      "        info = URLInfo()\n        info.encoding = encoding\n        default_port = RELATIVE_SCHEME_DEFAULT_PORTS[scheme]\n", 'C11-D1'),
    B('log-variant-narrow', "    except ValueError as error:\n        _logger.warning(__(\n            _('Unable to parse URL ‘{url}’: {error}.'),\n            url=wpull.string.printable_str(url), error=error))",
      "    except UnicodeError as error:\n        _logger.warning(__(\n            _('Unable to parse URL ‘{url}’: {error}.'),\n            url=wpull.string.printable_str(url), error=error))", 'C11-D1'),
    B('new-assert', "        if not hostname:\n            raise ValueError('Hostname is empty: {}'.format(ascii(url)))", "        assert hostname, 'Hostname is empty'", 'C11-D1'),
    B('urljoin-safe-narrow', "    except ValueError as error:\n        _logger.warning(__(\n            _('Unable to parse URL ‘{url}’: {error}.'),\n            url=url, error=error\n        ))",
      "    except TypeError as error:\n        _logger.warning(__(\n            _('Unable to parse URL ‘{url}’: {error}.'),\n            url=url, error=error\n        ))", 'C11-D1', 'wpull/scraper/util.py'),
    B('redirect-handler-removed', "        except ValueError as error:\n            raise ProtocolError('Invalid redirect location.') from error",
      "        except KeyError as error:\n            raise ProtocolError('Invalid redirect location.') from error", 'C11-D3', 'wpull/protocol/http/web.py'),
    B('forbidden-chars-brackets', "FORBIDDEN_HOSTNAME_CHARS = frozenset('#%/:?@[\\\\] ')", "FORBIDDEN_HOSTNAME_CHARS = frozenset('#%/:?@\\\\ ')", 'C11-D1'),
    B('idna-unwrapped', "    try:\n        new_hostname = hostname.encode('idna').decode('ascii').lower()\n    except UnicodeError as error:\n        raise UnicodeError('Hostname {} rejected: {}'.format(hostname, error)) from error",
      "    try:\n        new_hostname = hostname.encode('idna').decode('ascii').lower()\n    except UnicodeError as error:\n        raise LookupError('Hostname {} rejected: {}'.format(hostname, error)) from error", 'C11-D1'),
    B('add-url-raising', "        url_info = parse_url_or_log(url)\n        if not url_info:", "        url_info = wpull.url.URLInfo.parse(url)\n        if not url_info:", 'C11-D3', 'wpull/pipeline/session.py'),
    B('mutual-recursion', "def normalize_query(text, encoding='utf-8'):\n    '''Normalize a query string.\n\n    Percent-encodes unacceptable characters and ensures percent-encoding is\n    uppercase.\n    '''\n    path = percent_encode_plus(text, encoding=encoding)",
      "def normalize_query(text, encoding='utf-8'):\n    '''Normalize a query string.\n\n    Percent-encodes unacceptable characters and ensures percent-encoding is\n    uppercase.\n    '''\n    path = normalize_query(percent_encode_plus(text, encoding=encoding))", 'C11-D2'),
    N('recursion-with-base', "def parse_ipv4_int(text):\n    if text.startswith('0x'):", "def parse_ipv4_int(text):\n    if text.startswith('+'):\n        return parse_ipv4_int(text[1:])\n    if text.startswith('0x'):"),
    N('value-error-subclass', "                raise ValueError('Port number invalid')", "                raise UnicodeError('Port number invalid')"),
    N('guarded-lookup', "        info = URLInfo()\n        info.encoding = encoding\n",
      "        info = URLInfo()\n        info.encoding = encoding\n        if scheme in RELATIVE_SCHEME_DEFAULT_PORTS:\n            default_port = RELATIVE_SCHEME_DEFAULT_PORTS[scheme]\n"),
    N('except-exception', "    except ValueError as error:\n        _logger.warning(__(\n            _('Unable to parse URL ‘{url}’: {error}.'),\n            url=wpull.string.printable_str(url), error=error))",
      "    except Exception as error:\n        _logger.warning(__(\n            _('Unable to parse URL ‘{url}’: {error}.'),\n            url=wpull.string.printable_str(url), error=error))"),
]

ENTRIES += [
    B('regress-ipv6-zone', "        if '%' in hostname:\n            # Zone identifiers are not supported; newer versions of\n            # ipaddress accept them with arbitrary characters.\n            raise ValueError('Invalid IPv6 address: {}'\n                             .format(ascii(hostname)))\n\n", "", 'C11-D1'),
    B('regress-userinfo-eager', "        normalize_username(info.username)\n        normalize_password(info.password)\n", "", 'C11-D1'),
    B('userinfo-eager-only-name', "        normalize_username(info.username)\n        normalize_password(info.password)\n", "        normalize_username(info.username)\n", 'C11-D1'),
    B('url-userinfo-document-encoding', "                parts.append(normalize_username(self.username))", "                parts.append(normalize_username(self.username, encoding=self.encoding))", 'C11-D1'),
    B('urljoin-self-recursion', "            return urllib.parse.urljoin(\n                base_url,\n                '{0}:{1}'.format(scheme, url),", "            return urljoin(\n                base_url,\n                '{0}:{1}'.format(scheme, url),", 'C11-D2'),
    N('ipv6-zone-check-on-literal', "        if '%' in hostname:", "        if '%' in hostname[1:-1]:"),
]

RW = 'wpull/urlrewrite.py'
HT = 'wpull/scraper/html.py'
ENTRIES += [
    # consumers of scheme-dependent fields: the guard must stop every scheme the parser leaves them None for
    B('rewriter-guard-prefix', "        if url_info.scheme not in ('http', 'https'):\n            return url_info\n",
      "        if not url_info.scheme.startswith('http'):\n            return url_info\n", 'C11-D1b', RW),
    B('rewriter-guard-dropped', "        if url_info.scheme not in ('http', 'https'):\n            return url_info\n\n", "", 'C11-D1b', RW),
    B('rewriter-guard-mailto-only', "        if url_info.scheme not in ('http', 'https'):\n            return url_info\n",
      "        if url_info.scheme in ('mailto', 'javascript', 'data'):\n            return url_info\n", 'C11-D1b', RW),
    N('rewriter-guard-table', "        if url_info.scheme not in ('http', 'https'):\n            return url_info\n",
      "        if url_info.scheme not in ('http', 'https', 'ftp'):\n            return url_info\n", RW),
    N('rewriter-guard-eq', "        if url_info.scheme not in ('http', 'https'):\n            return url_info\n",
      "        if url_info.scheme != 'http' and url_info.scheme != 'https':\n            return url_info\n", RW),
    N('rewriter-positive-guard', "        if self._hash_fragment_enabled and url_info.fragment.startswith('!'):",
      "        if self._hash_fragment_enabled and url_info.fragment and url_info.fragment.startswith('!'):", RW),
    # the base of a join is never None
    B('html-base-fallback-none', "                        element_base_url = urljoin_safe(\n                            base_url, clean_base_url\n                        ) or base_url\n\n                cleaned_url = clean_link_soup(link_info.link)",
      "                        element_base_url = urljoin_safe(\n                            base_url, clean_base_url\n                        ) or doc_base_url\n\n                cleaned_url = clean_link_soup(link_info.link)", 'C11-D3', HT),
    B('html-base-no-fallback', "                        element_base_url = urljoin_safe(\n                            base_url, clean_base_url\n                        ) or base_url\n\n                cleaned_url = clean_link_soup(link_info.link)",
      "                        element_base_url = urljoin_safe(\n                            base_url, clean_base_url\n                        )\n\n                cleaned_url = clean_link_soup(link_info.link)", 'C11-D3', HT),
    N('html-base-fallback-element', "                        element_base_url = urljoin_safe(\n                            base_url, clean_base_url\n                        ) or base_url\n\n                cleaned_url = clean_link_soup(link_info.link)",
      "                        element_base_url = urljoin_safe(\n                            element_base_url, clean_base_url\n                        ) or element_base_url\n\n                cleaned_url = clean_link_soup(link_info.link)", HT),
]
