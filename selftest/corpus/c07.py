R = 'wpull/warc/recorder.py'
F = 'wpull/warc/format.py'


def B(i, old, new, expect=None, rel=R):
    return {'id': 'C07/' + i, 'prop': 'C07', 'kind': 'break', 'edits': [(rel, old, new)], 'expect': expect}


def N(i, old, new, rel=R):
    return {'id': 'C07/benign-' + i, 'prop': 'C07', 'kind': 'benign', 'edits': [(rel, old, new)]}


ENTRIES = [
    B('regress-dotall', "data, re.DOTALL)", "data)", 'C07-D3', F),
    B('regress-window', "self.block_file.read(65536)", "self.block_file.read(4096)", 'C07-D3', F),
    B('offset-after', "raw_file_offset = before_offset", "raw_file_offset = after_offset", 'C07-D1'),
    B('length-total', "raw_file_record_size = after_offset - before_offset", "raw_file_record_size = after_offset", 'C07-D1'),
    B('swap-args', "record, raw_file_record_size, raw_file_offset\n            )", "record, raw_file_offset, raw_file_record_size\n            )", 'C07-D1'),
    B('g-from-prefix', "filename = os.path.basename(self._warc_filename)", "filename = os.path.basename(self._prefix_filename)", 'C07-D2'),
    B('swap-columns', "            raw_file_record_size_str,\n            raw_file_offset_str,\n            filename,",
      "            raw_file_offset_str,\n            raw_file_record_size_str,\n            filename,", 'C07-D1'),
    B('swap-header', "'k', 'S', 'V', 'g',", "'k', 'V', 'S', 'g',", 'C07-D1'),
    B('status-from-record', "response_code = str(http_header.status_code)", "response_code = '200'", 'C07-D2'),
    B('url-col', "            url,\n            timestamp,", "            record_id,\n            timestamp,", 'C07-D2'),
    B('guard-inverted', "if record.fields[WARCRecord.WARC_TYPE] != WARCRecord.RESPONSE \\\n           or not re.match(",
      "if record.fields[WARCRecord.WARC_TYPE] != WARCRecord.RESPONSE \\\n           and not re.match(", 'C07-D4'),
    B('cdx-twice', "            self._write_cdx_field(\n                record, raw_file_record_size, raw_file_offset\n            )\n",
      "            self._write_cdx_field(\n                record, raw_file_record_size, raw_file_offset\n            )\n            self._write_cdx_field(record, raw_file_record_size, raw_file_offset)\n", 'C07-D4'),
    B('reader-swap', "yield record['a'], record['u'], record['k']", "yield record['a'], record['k'], record['u']", 'C07-D2', 'wpull/application/tasks/warc.py'),
    B('early-return', "        http_header = record.get_http_header()\n\n        if http_header:",
      "        http_header = record.get_http_header()\n\n        if not http_header:\n            return\n\n        if http_header:", 'C07-D4'),
    N('rename', "raw_file_offset_str", "offset_text"),
    N('dotall-inline', "re.match(br'(.*?\\r?\\n\\r?\\n)', data, re.DOTALL)", "re.match(br'(?s)(.*?\\r?\\n\\r?\\n)', data)", F),
    N('class-any', "re.match(br'(.*?\\r?\\n\\r?\\n)', data, re.DOTALL)", "re.match(br'([\\s\\S]*?\\r?\\n\\r?\\n)', data)", F),
    N('inline-args', "            raw_file_offset = before_offset\n            raw_file_record_size = after_offset - before_offset\n\n            self._write_cdx_field(\n                record, raw_file_record_size, raw_file_offset\n            )",
      "            self._write_cdx_field(\n                record, after_offset - before_offset, before_offset\n            )"),
]
ENTRIES[14]['all'] = True

NV = 'wpull/namevalue.py'
ENTRIES += [
    B('cdx-not-truncated', "            wpull.util.truncate_file(self._cdx_filename)\n            self._write_cdx_header()\n", "            self._write_cdx_header()\n", 'C07-D5'),
    B('cdx-truncate-only-when-appending', "        if not self._params.appending:\n            wpull.util.truncate_file(self._cdx_filename)", "        if self._params.appending:\n            wpull.util.truncate_file(self._cdx_filename)", 'C07-D5'),
    B('cdx-fresh-without-header', "            wpull.util.truncate_file(self._cdx_filename)\n            self._write_cdx_header()\n", "            wpull.util.truncate_file(self._cdx_filename)\n", 'C07-D5'),
    B('status-line-cut-at-crlf', "match.group(1).partition(b'\\n')", "match.group(1).partition(b'\\r\\n')", 'C07-D6', F),
    B('unfold-space-only', "        if line and line[0:1] in (' ', '\\t'):", "        if line.startswith(' '):", 'C07-D6', NV),
    B('unfold-empty-line-continues', "        if line and line[0:1] in (' ', '\\t'):", "        if line[0:1] in ' \\t':", 'C07-D6', NV),
    N('unfold-startswith-tuple', "        if line and line[0:1] in (' ', '\\t'):", "        if line.startswith((' ', '\\t')):", NV),
    N('unfold-first-char', "        if line and line[0:1] in (' ', '\\t'):", "        if line and line[0] in '\\t ':", NV),
    N('cdx-start-restructured', "        if not self._params.appending:\n            wpull.util.truncate_file(self._cdx_filename)\n            self._write_cdx_header()\n        elif not os.path.exists(self._cdx_filename):\n            self._write_cdx_header()\n",
      "        if self._params.appending:\n            if not os.path.exists(self._cdx_filename):\n                self._write_cdx_header()\n        else:\n            wpull.util.truncate_file(self._cdx_filename)\n            self._write_cdx_header()\n"),
    N('status-line-split', "status_line, dummy, field_str = match.group(1).partition(b'\\n')", "status_line, field_str = match.group(1).split(b'\\n', 1)", F),
]

ENTRIES += [
    B('regress-mimetype-alnum-only', "            r\"([!#$%&'*+.^_`|~a-zA-Z0-9-]+/[!#$%&'*+.^_`|~a-zA-Z0-9-]+)\", value)", "            r'([a-zA-Z0-9-]+/[a-zA-Z0-9-]+)', value)", 'C07-D7'),
    B('mimetype-subtype-without-plus', "            r\"([!#$%&'*+.^_`|~a-zA-Z0-9-]+/[!#$%&'*+.^_`|~a-zA-Z0-9-]+)\", value)", "            r\"([!#$%&'*+.^_`|~a-zA-Z0-9-]+/[!#$%&'*.^_`|~a-zA-Z0-9-]+)\", value)", 'C07-D7'),
    N('mimetype-word-class', "            r\"([!#$%&'*+.^_`|~a-zA-Z0-9-]+/[!#$%&'*+.^_`|~a-zA-Z0-9-]+)\", value)", "            r\"([!#$%&'*+.^`|~\\w-]+/[!#$%&'*+.^`|~\\w-]+)\", value)"),
]

RQ = 'wpull/protocol/http/request.py'
ENTRIES += [
    {'id': 'C07/status-reason-optional', 'prop': 'C07', 'kind': 'break', 'expect': 'C07-D6', 'edits': [(RQ,
      "br'(HTTP/\\d+\\.\\d+)[ \\t]+([0-9]{1,3})[ \\t]*([^\\r\\n]*)'", "br'(HTTP/\\d+\\.\\d+)[ \\t]+([0-9]{1,3})(?:[ \\t]+([^\\r\\n]*))?'")]},
    {'id': 'C07/benign-status-reason-optional-defaulted', 'prop': 'C07', 'kind': 'benign', 'edits': [(RQ,
      "br'(HTTP/\\d+\\.\\d+)[ \\t]+([0-9]{1,3})[ \\t]*([^\\r\\n]*)'", "br'(HTTP/\\d+\\.\\d+)[ \\t]+([0-9]{1,3})(?:[ \\t]+([^\\r\\n]*))?'"),
      (RQ, "(groups[0], int(groups[1]), groups[2]),", "(groups[0], int(groups[1]), groups[2] or b''),")]},
]
