T = 'wpull/database/sqltable.py'
M = 'wpull/database/sqlmodel.py'
W = 'wpull/database/wrap.py'
BS = 'wpull/database/base.py'
I = 'wpull/pipeline/item.py'


def B(i, old, new, expect=None, rel=T):
    return {'id': 'C14/' + i, 'prop': 'C14', 'kind': 'break', 'edits': [(rel, old, new)], 'expect': expect}


def N(i, old, new, rel=T):
    return {'id': 'C14/benign-' + i, 'prop': 'C14', 'kind': 'benign', 'edits': [(rel, old, new)]}


def N2(i, edits):
    return {'id': 'C14/benign-' + i, 'prop': 'C14', 'kind': 'benign', 'edits': edits}


CHECK_IN_TAIL = "            session.execute(query)\n\n            if new_status == Status.done"

ENTRIES = [
    # ------------------------------------------------------------------ D1 schema / insert discipline
    B('key-not-unique', "nullable=False, unique=True, index=True,\n        doc='Target URL to fetch'",
      "nullable=False, index=True,\n        doc='Target URL to fetch'", 'C14-D1', M),
    B('url-string-not-unique', "url = Column(String, nullable=False, unique=True, index=True)",
      "url = Column(String, nullable=False, unique=False, index=True)", 'C14-D1', M),
    B('status-default-in-progress', "default=Status.todo.value,\n        nullable=False,\n        doc='Status",
      "default=Status.in_progress.value,\n        nullable=False,\n        doc='Status", 'C14-D1', M),
    B('try-count-default-1', "Integer, nullable=False, default=0,\n        doc='Number of attempts",
      "Integer, nullable=False, default=1,\n        doc='Number of attempts", 'C14-D1', M),
    B('level-nullable', "Integer, nullable=False, default=0,\n        doc='Recursive depth",
      "Integer, nullable=True,\n        doc='Recursive depth", 'C14-D1', M),
    B('queue-insert-no-ignore', "insert(QueuedURL).prefix_with('OR IGNORE').values(bind_values)",
      "insert(QueuedURL).values(bind_values)", 'C14-D1'),
    B('url-string-or-replace', "insert(URLString).prefix_with('OR IGNORE')", "insert(URLString).prefix_with('OR REPLACE')", 'C14-D1', M),
    B('status-alias', "in_progress = 'in_progress'", "in_progress = 'todo'", 'C14-D1', I),
    B('url-proxy-parent', "url = association_proxy('url_string', 'url')", "url = association_proxy('parent_url_string', 'url')", 'C14-D1', M),
    B('orm-add', "            URLString.add_urls(session, url_strings)\n",
      "            URLString.add_urls(session, url_strings)\n            session.add(QueuedURL(url=new_urls[0][0]))\n", 'C14-D1'),
    # ------------------------------------------------------------------ D2 operations
    B('checkout-stores-todo', "url_record.status = Status.in_progress.value", "url_record.status = Status.todo.value", 'C14-D2'),
    B('checkout-ignores-status', "QueuedURL.status == filter_status.value,", "QueuedURL.status == Status.todo.value,", 'C14-D2'),
    B('checkout-level-le', "QueuedURL.level < level,", "QueuedURL.level <= level,", 'C14-D2'),
    B('checkout-level-truthy', "            if level is None:\n                url_record", "            if not level:\n                url_record", 'C14-D2'),
    B('checkout-level-dropped', "                        QueuedURL.level < level,\n", "", 'C14-D2'),
    B('checkout-no-notfound', "            if not url_record:\n                raise NotFound()\n\n            url_record.status", "            url_record.status", 'C14-D2'),
    B('checkout-notfound-inverted', "            if not url_record:\n                raise NotFound()\n\n            url_record.status",
      "            if url_record:\n                raise NotFound()\n\n            url_record.status", 'C14-D2'),
    B('checkout-returns-none', "            if not url_record:\n                raise NotFound()\n\n            url_record.status",
      "            if not url_record:\n                return None\n\n            url_record.status", 'C14-D2'),
    B('checkout-store-outside-session', "            url_record.status = Status.in_progress.value\n\n            return url_record.to_plain()",
      "        url_record.status = Status.in_progress.value\n\n        return url_record.to_plain()", 'C14-D2'),
    B('checkout-resets-tries', "            url_record.status = Status.in_progress.value\n",
      "            url_record.status = Status.in_progress.value\n            url_record.try_count = 0\n", 'C14-D2'),
    B('checkin-plus-two', "QueuedURL.try_count + 1", "QueuedURL.try_count + 2", 'C14-D2'),
    B('checkin-inc-inverted', "            if increment_try_count:\n", "            if not increment_try_count:\n", 'C14-D2'),
    B('checkin-inc-always', "            if increment_try_count:\n                values[QueuedURL.try_count]", "            if True:\n                values[QueuedURL.try_count]", 'C14-D2'),
    B('checkin-status-constant', "QueuedURL.status: new_status.value", "QueuedURL.status: Status.done.value", 'C14-D2'),
    B('checkin-wrong-key', "                .where(QueuedURL.url_string_id == subquery)\n\n" + CHECK_IN_TAIL,
      "                .where(QueuedURL.id == subquery)\n\n" + CHECK_IN_TAIL, 'C14-D2'),
    B('checkin-parent-url', "                .where(QueuedURL.url_string_id == subquery)\n\n" + CHECK_IN_TAIL,
      "                .where(QueuedURL.parent_url_string_id == subquery)\n\n" + CHECK_IN_TAIL, 'C14-D2'),
    B('checkin-not-executed', CHECK_IN_TAIL, "            if new_status == Status.done", 'C14-D2'),
    B('checkin-delete-skipped', CHECK_IN_TAIL,
      "            session.execute(query)\n            if new_status == Status.skipped:\n"
      "                session.execute(delete(QueuedURL).where(QueuedURL.url_string_id == subquery))\n\n            if new_status == Status.done", 'C14-D2'),
    B('release-error-rows', ".where(QueuedURL.status==Status.in_progress.value)",
      ".where(QueuedURL.status.in_([Status.in_progress.value, Status.error.value]))", 'C14-D2'),
    B('release-not-equal', ".where(QueuedURL.status==Status.in_progress.value)", ".where(QueuedURL.status!=Status.done.value)", 'C14-D2'),
    B('release-no-where', "update(QueuedURL).values({QueuedURL.status: Status.todo.value})\\\n                .where(QueuedURL.status==Status.in_progress.value)\n",
      "update(QueuedURL).values({QueuedURL.status: Status.todo.value})\n", 'C14-D2'),
    B('release-resets-tries', "{QueuedURL.status: Status.todo.value}", "{QueuedURL.status: Status.todo.value, QueuedURL.try_count: 0}", 'C14-D2'),
    B('release-to-error', "{QueuedURL.status: Status.todo.value}", "{QueuedURL.status: Status.error.value}", 'C14-D2'),
    B('update-one-extra-column', "                values[getattr(QueuedURL, key)] = value\n",
      "                values[getattr(QueuedURL, key)] = value\n            values[QueuedURL.status] = Status.todo.value\n", 'C14-D2'),
    B('remove-many-inverted', "delete(QueuedURL).where(QueuedURL.url_string_id == url_str_id)",
      "delete(QueuedURL).where(QueuedURL.url_string_id != url_str_id)", 'C14-D2'),
    B('remove-many-all', "delete(QueuedURL).where(QueuedURL.url_string_id == url_str_id)", "delete(QueuedURL)", 'C14-D2'),
    B('delete-in-release', "            query = update(QueuedFile).values({QueuedFile.status: Status.todo.value})",
      "            session.execute(delete(QueuedURL).where(QueuedURL.status == Status.skipped.value))\n"
      "            query = update(QueuedFile).values({QueuedFile.status: Status.todo.value})", 'C14-D2'),
    B('get-one-returns-none', "            if not result:\n                raise NotFound()\n            else:",
      "            if not result:\n                return None\n            else:", 'C14-D2'),
    B('no-commit', "            yield session\n            session.commit()\n", "            yield session\n", 'C14-D2'),
    B('to-plain-wrong-column', "record.level = self.level", "record.level = self.inline_level", 'C14-D2', M),
    B('result-overrides-status', "database_attributes = ('status_code', 'filename')", "database_attributes = ('status_code', 'filename', 'status')", 'C14-D2', I),
    B('url-strings-conditional', "        for url, properties, data in new_urls:\n            url_strings.append(url)\n",
      "        for url, properties, data in new_urls:\n            if properties:\n                url_strings.append(url)\n", 'C14-D2'),
    B('key-bound-to-parent', "select([URLString.id])\\\n                .where(URLString.url == bindparam('url'))",
      "select([URLString.id])\\\n                .where(URLString.url == bindparam('parent_url'))", 'C14-D2'),
    B('add-urls-not-executed', "        session.execute(query, [{'url': url} for url in urls])\n", "        return query\n", 'C14-D2', M),
    B('leaf-overrides-release', "    def _session_maker(self):\n        return self._session_maker_instance\n\n    def close(self):\n        self._engine.dispose()\n\n\nclass GenericSQLURLTable",
      "    def _session_maker(self):\n        return self._session_maker_instance\n\n    def release(self):\n        pass\n\n    def close(self):\n        self._engine.dispose()\n\n\nclass GenericSQLURLTable", 'C14-D2'),
    # ------------------------------------------------------------------ D3 added-row detection
    B('getter-returns-nothing', "            return [row[0] for row in session.execute(query)]", "            session.execute(query)\n            return []", 'C14-D3', M),
    B('max-id-after-insert',
      "            with QueuedURL.watch_urls_inserted(session) as get_inserted_urls:\n                session.execute(query, all_row_values)\n\n                added_urls = get_inserted_urls()",
      "            session.execute(query, all_row_values)\n            with QueuedURL.watch_urls_inserted(session) as get_inserted_urls:\n                added_urls = get_inserted_urls()", 'C14-D3'),
    B('watch-ge', "QueuedURL.id > last_primary_key", "QueuedURL.id >= last_primary_key", 'C14-D3', M),
    B('watch-or-one', "func.max(QueuedURL.id)).scalar() or 0", "func.max(QueuedURL.id)).scalar() or 1", 'C14-D3', M),
    B('watch-lazy-max', "        last_primary_key = session.query(func.max(QueuedURL.id)).scalar() or 0\n\n        def get_urls():\n",
      "        def get_urls():\n            last_primary_key = session.query(func.max(QueuedURL.id)).scalar() or 0\n", 'C14-D3', M),
    B('watch-wrong-table', "func.max(QueuedURL.id)", "func.max(URLString.id)", 'C14-D3', M),
    B('watch-no-join', "                and_(QueuedURL.id > last_primary_key,\n                     QueuedURL.url_string_id == URLString.id)",
      "                and_(QueuedURL.id > last_primary_key,\n                     QueuedURL.parent_url_string_id == URLString.id)", 'C14-D3', M),
    B('add-many-returns-all', "        return added_urls\n", "        return url_strings\n", 'C14-D3'),
    B('getter-before-insert', "                session.execute(query, all_row_values)\n\n                added_urls = get_inserted_urls()",
      "                added_urls = get_inserted_urls()\n                session.execute(query, all_row_values)", 'C14-D3'),
    # ------------------------------------------------------------------ D4 wrapper
    B('wrap-drops-increment', "increment_try_count=increment_try_count, url_result=url_result)", "url_result=url_result)", 'C14-D4', W),
    B('wrap-increment-constant', "increment_try_count=increment_try_count,", "increment_try_count=True,", 'C14-D4', W),
    B('wrap-drops-level', "self.url_table.check_out(filter_status, filter_level)", "self.url_table.check_out(filter_status)", 'C14-D4', W),
    B('wrap-swaps-args', "self.url_table.get_revisit_id(url, payload_digest)", "self.url_table.get_revisit_id(payload_digest, url)", 'C14-D4', W),
    B('wrap-count-no-return', "        return self.url_table.count()", "        self.url_table.count()", 'C14-D4', W),
    B('wrap-remove-first-only', "return self.url_table.remove_many(urls)", "return self.url_table.remove_many(list(urls)[:1])", 'C14-D4', W),
    B('wrap-add-many-returns-input', "        return added_urls\n", "        return urls\n", 'C14-D4', W),
    B('wrap-default-changed', "increment_try_count=True,\n                 url_result=None):\n        if new_status == Status.error:",
      "increment_try_count=False,\n                 url_result=None):\n        if new_status == Status.error:", 'C14-D4', W),
    B('wrap-early-return', "        if new_status == Status.error:\n            self._queue_counter += 1",
      "        if new_status == Status.skipped:\n            return\n        if new_status == Status.error:\n            self._queue_counter += 1", 'C14-D4', W),
    B('wrap-wrong-method', "        return self.url_table.release()", "        return self.url_table.close()", 'C14-D4', W),
    B('wrap-override-removed', "    def release(self):\n        return self.url_table.release()\n\n", "", 'C14-D4', W),
    B('impl-default-changed', "increment_try_count=True,\n                 url_result=None):\n        with self._session()",
      "increment_try_count=False,\n                 url_result=None):\n        with self._session()", 'C14-D4'),
    B('wrap-keyword-level', "self.url_table.check_out(filter_status, filter_level)",
      "self.url_table.check_out(filter_status, filter_level=filter_level)", 'C14-D4', W),
    B('add-one-swapped', "AddURLInfo(url, url_properties, url_data)", "AddURLInfo(url, url_data, url_properties)", 'C14-D4', BS),
    B('contains-inverted', "        except NotFound:\n            return False\n        else:\n            return True",
      "        except NotFound:\n            return True\n        else:\n            return False", 'C14-D4', BS),
    B('checkout-branches-swapped', "            if level is None:\n                url_record", "            if level is not None:\n                url_record", 'C14-D2'),
    B('file-row-on-error', "if new_status == Status.done and url_result and url_result.filename:",
      "if new_status == Status.error and url_result and url_result.filename:", 'C14-D2'),
    B('new-writer', "    def get_hostnames(self):\n        hostnames = []",
      "    def reset(self):\n        with self._session() as session:\n            session.execute(update(QueuedURL).values({QueuedURL.status: Status.todo.value}))\n\n"
      "    def get_hostnames(self):\n        hostnames = []", 'C14-D2'),
    B('wrap-forward-only-on-error',
      "        return self.url_table.check_in(url, new_status, increment_try_count=increment_try_count, url_result=url_result)",
      "            return self.url_table.check_in(url, new_status, increment_try_count=increment_try_count, url_result=url_result)", 'C14-D4', W),
    B('wrap-update-one-drops-columns', "return self.url_table.update_one(*args, **kwargs)", "return self.url_table.update_one(*args)", 'C14-D4', W),
    # ------------------------------------------------------------------ benign twins
    N('nested-if', "            if not url_record:\n                raise NotFound()\n\n            url_record.status = Status.in_progress.value\n\n            return url_record.to_plain()",
      "            if url_record:\n                url_record.status = Status.in_progress.value\n                return url_record.to_plain()\n            raise NotFound()"),
    N('release-one-expression', "            query = update(QueuedURL).values({QueuedURL.status: Status.todo.value})\\\n                .where(QueuedURL.status==Status.in_progress.value)\n            session.execute(query)\n",
      "            session.execute(update(QueuedURL).where(QueuedURL.status == Status.in_progress.value).values(status=Status.todo.value))\n"),
    N('unrelated-reader', "    def get_hostnames(self):\n        hostnames = []",
      "    def count_done(self):\n        with self._session() as session:\n            return session.query(QueuedURL).filter_by(status=Status.done.value).count()\n\n"
      "    def get_hostnames(self):\n        hostnames = []"),
    N('rename-record', "url_record", "row"),
    N('rename-subquery', "subquery", "url_id"),
    N('is-none', "            if not url_record:\n                raise NotFound()", "            if url_record is None:\n                raise NotFound()"),
    N('filter-spelling', "url_record = session.query(QueuedURL).filter_by(\n                    status=filter_status.value).first()",
      "url_record = session.query(QueuedURL).filter(\n                    filter_status.value == QueuedURL.status).first()"),
    N('checkout-one-query',
      "            if level is None:\n                url_record = session.query(QueuedURL).filter_by(\n                    status=filter_status.value).first()\n"
      "            else:\n                url_record = session.query(QueuedURL)\\\n                    .filter(\n"
      "                        QueuedURL.status == filter_status.value,\n                        QueuedURL.level < level,\n                ).first()\n",
      "            candidates = session.query(QueuedURL).filter(QueuedURL.status == filter_status.value)\n"
      "            if level is not None:\n                candidates = candidates.filter(level > QueuedURL.level)\n"
      "            url_record = candidates.first()\n"),
    N('release-operands', ".where(QueuedURL.status==Status.in_progress.value)", ".where(Status.in_progress.value == QueuedURL.status)"),
    N('one-plus', "QueuedURL.try_count + 1", "1 + QueuedURL.try_count"),
    N('checkin-logging', "            if increment_try_count:\n                values[QueuedURL.try_count]",
      "            _logger.debug('check in %s', url)\n\n            if increment_try_count:\n                values[QueuedURL.try_count]"),
    N('checkin-early-shape', "            if increment_try_count:\n                values[QueuedURL.try_count] = QueuedURL.try_count + 1\n",
      "            if not increment_try_count:\n                pass\n            else:\n                values[QueuedURL.try_count] = QueuedURL.try_count + 1\n"),
    N('wrap-positional', "self.url_table.check_in(url, new_status, increment_try_count=increment_try_count, url_result=url_result)",
      "self.url_table.check_in(url, new_status, increment_try_count, url_result)", W),
    N('wrap-local-result', "        return self.url_table.get_hostnames()", "        names = self.url_table.get_hostnames()\n        return names", W),
    N('column-kwargs-order', "Integer, nullable=False, default=0,\n        doc='Number of attempts", "Integer, default=0, nullable=False,\n        doc='Number of attempts", M),
    N('default-literal', "default=Status.todo.value,\n        nullable=False,\n        doc='Status", "default='todo',\n        nullable=False,\n        doc='Status", M),
    N2('ignore-constant', [(M, "DBBase = sqlalchemy.ext.declarative.declarative_base()", "DBBase = sqlalchemy.ext.declarative.declarative_base()\nIGNORE = 'OR IGNORE'"),
                           (M, "insert(URLString).prefix_with('OR IGNORE')", "insert(URLString).prefix_with(IGNORE)")]),
    N('split-insert-chain', "            query = insert(QueuedURL).prefix_with('OR IGNORE').values(bind_values)\n",
      "            query = insert(QueuedURL)\n            query = query.prefix_with('OR IGNORE').values(bind_values)\n"),
    N('update-one-comprehension',
      "            values = {}\n\n            for key, value in kwargs.items():\n                values[getattr(QueuedURL, key)] = value\n",
      "            values = {getattr(QueuedURL, key): value for key, value in kwargs.items()}\n"),
    N('watch-operands', "QueuedURL.id > last_primary_key", "last_primary_key < QueuedURL.id", M),
    N('remove-many-subselect', "                url_str_id = session.query(URLString.id)\\\n                    .filter_by(url=url).scalar()\n",
      "                url_str_id = select([URLString.id]).where(URLString.url == url)\n"),
]
for e in ENTRIES:
    if e['id'].endswith('rename-record') or e['id'].endswith('rename-subquery'):
        e['all'] = True
