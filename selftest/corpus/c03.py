S = 'wpull/database/sqltable.py'
I = 'wpull/pipeline/session.py'
D = 'wpull/application/tasks/database.py'
P = 'wpull/processor/ftp.py'
W = 'wpull/processor/web.py'
B_ = 'wpull/application/builder.py'


def B(i, old, new, expect=None, rel=S):
    return {'id': 'C03/' + i, 'prop': 'C03', 'kind': 'break', 'edits': [(rel, old, new)], 'expect': expect}


def N(i, old, new, rel=S):
    return {'id': 'C03/benign-' + i, 'prop': 'C03', 'kind': 'benign', 'edits': [(rel, old, new)]}


ENTRIES = [
    B('no-commit', "            yield session\n            session.commit()\n", "            yield session\n", 'C03-D1'),
    B('rollback-swallowed', "            session.rollback()\n            raise\n", "            session.rollback()\n", 'C03-D1'),
    B('two-sessions', "    def update_one(self, url, **kwargs):\n        with self._session() as session:\n            values = {}\n",
      "    def update_one(self, url, **kwargs):\n        with self._session() as session:\n            session.query(QueuedURL).count()\n        with self._session() as session:\n            values = {}\n", 'C03-D1'),
    B('pragma-off', "connection.execute('PRAGMA synchronous=NORMAL')", "connection.execute('PRAGMA synchronous=OFF')", 'C03-D2'),
    B('pragma-no-wal', "        connection.execute('PRAGMA journal_mode=WAL')\n", "", 'C03-D2'),
    B('listen-late', "        sqlalchemy.event.listen(\n            self._engine, 'connect', self._apply_pragmas_callback)\n        DBBase.metadata.create_all(self._engine)\n",
      "        DBBase.metadata.create_all(self._engine)\n        sqlalchemy.event.listen(\n            self._engine, 'connect', self._apply_pragmas_callback)\n", 'C03-D2'),
    B('release-deleted', "        url_table.release()\n", "        pass\n", 'C03-D3', D),
    B('release-conditional', "        url_table.release()\n", "        if session.args.database_uri:\n            url_table.release()\n", 'C03-D3', D),
    B('release-all-rows', "            query = update(QueuedURL).values({QueuedURL.status: Status.todo.value})\\\n                .where(QueuedURL.status==Status.in_progress.value)\n",
      "            query = update(QueuedURL).values({QueuedURL.status: Status.todo.value})\n", 'C03-D3'),
    B('release-error-too', ".where(QueuedURL.status==Status.in_progress.value)", ".where(QueuedURL.status!=Status.done.value)", 'C03-D3'),
    B('task-order', "                DatabaseSetupTask(),\n                ParserSetupTask(),", "                ParserSetupTask(),", 'C03-D3', B_),
    B('input-resets', "            urls = url_table.add_many(AddURLInfo(url_info.url, None, None) for url_info in batch if url_info)",
      "            urls = url_table.add_many(AddURLInfo(url_info.url, None, None) for url_info in batch if url_info)\n            url_table.release()", 'C03-D4', D),
    B('regress-flush-set-status', "        # Make the discovered links durable before the item itself is\n        # checked in, otherwise a crash in between loses them for good.\n        self.finish()\n", "", 'C03-D5', I),
    B('regress-flush-skip', "        _logger.debug(__(_('Skipping ‘{url}’.'), url=self.url_record.url))\n        self.finish()\n", "        _logger.debug(__(_('Skipping ‘{url}’.'), url=self.url_record.url))\n", 'C03-D5', I),
    B('regress-ftp-links-late', "        if is_listing:\n            # Queue the links before the status of this item is stored.\n            self._add_listing_links(response)\n\n        if is_listing and not self._processor.fetch_params.remove_listing or \\\n                not is_listing:\n            filename = self._file_writer_session.save_document(response)\n            action = self._result_rule.handle_document(self._item_session, filename)\n        else:\n            self._file_writer_session.discard_document(response)\n            action = self._result_rule.handle_no_document(self._item_session)\n",
      "        if is_listing and not self._processor.fetch_params.remove_listing or \\\n                not is_listing:\n            filename = self._file_writer_session.save_document(response)\n            action = self._result_rule.handle_document(self._item_session, filename)\n        else:\n            self._file_writer_session.discard_document(response)\n            action = self._result_rule.handle_no_document(self._item_session)\n\n        if is_listing:\n            self._add_listing_links(response)\n", 'C03-D5', P),
    B('web-scrape-after-done', "            filename = self._file_writer_session.save_document(response)\n\n            self._processing_rule.scrape_document(self._item_session)\n\n            return self._result_rule.handle_document(\n                self._item_session, filename\n            )",
      "            filename = self._file_writer_session.save_document(response)\n\n            action = self._result_rule.handle_document(\n                self._item_session, filename\n            )\n            self._processing_rule.scrape_document(self._item_session)\n            return action", 'C03-D5', W),
    B('batch-cleared-unsaved', "        if len(self._add_url_batch) >= 1000:\n            self.app_session.factory['URLTable'].add_many(self._add_url_batch)\n            self._add_url_batch.clear()",
      "        if len(self._add_url_batch) >= 1000:\n            self._add_url_batch.clear()", 'C03-D5', I),
    B('handle-response-in-handler', "            if request.body:\n                request.body.close()\n\n            if response and response.body:\n                response.body.close()\n\n            return True, wait_time",
      "            if response:\n                self._handle_response(request, response)\n\n            if request.body:\n                request.body.close()\n\n            if response and response.body:\n                response.body.close()\n\n            return True, wait_time", 'C03-D6', W),
    B('done-for-any-action', "        if action == Actions.NORMAL:\n            self._statistics.increment(item_session.response.body.size())\n            item_session.set_status(Status.done, filename=filename)",
      "        if action != Actions.STOP:\n            self._statistics.increment(item_session.response.body.size())\n            item_session.set_status(Status.done, filename=filename)", 'C03-D6', 'wpull/processor/rule.py'),
    N('session-local-rename', "        session = self._session_maker()\n        try:\n            yield session\n            session.commit()\n        except:\n            session.rollback()\n            raise\n        finally:\n            session.close()",
      "        session = self._session_maker()\n        try:\n            yield session\n            session.commit()\n        except BaseException:\n            session.rollback()\n            raise\n        finally:\n            session.close()"),
    N('pragma-full', "connection.execute('PRAGMA synchronous=NORMAL')", "connection.execute('PRAGMA synchronous=FULL')"),
    N('release-flipped', ".where(QueuedURL.status==Status.in_progress.value)", ".where(Status.in_progress.value == QueuedURL.status)"),
    N('flush-inline', "        # Make the discovered links durable before the item itself is\n        # checked in, otherwise a crash in between loses them for good.\n        self.finish()\n",
      "        self.app_session.factory['URLTable'].add_many(self._add_url_batch)\n        self._add_url_batch.clear()\n", I),
]

ENTRIES += [
    {'id': 'C03/pysqlite-autocommit', 'prop': 'C03', 'kind': 'break', 'expect': 'C03-D1', 'edits': [('wpull/database/sqltable.py',
      "        connection.execute('PRAGMA journal_mode=WAL')\n", "        connection.isolation_level = None\n        connection.execute('PRAGMA journal_mode=WAL')\n")]},
]
