S = 'wpull/protocol/http/stream.py'
K = 'wpull/protocol/http/chunked.py'
UT = 'wpull/protocol/http/util.py'
RQ = 'wpull/protocol/http/request.py'
CL = 'wpull/protocol/http/client.py'
NVF = 'wpull/namevalue.py'


def B(i, old, new, expect=None, rel=S, more=()):
    return {'id': 'C08/' + i, 'prop': 'C08', 'kind': 'break', 'edits': [(rel, old, new)] + list(more), 'expect': expect}


def N(i, old, new, rel=S, all_=False):
    e = {'id': 'C08/benign-' + i, 'prop': 'C08', 'kind': 'benign', 'edits': [(rel, old, new)]}
    if all_:
        e['all'] = True
    return e


ENTRIES = [
    # ------------------------------------------------------------------ D1 framing choice
    B('length-before-chunked',
      "        if chunked_match:\n            return 'chunked'\n        elif 'Content-Length' in response.fields:\n            return 'length'",
      "        if 'Content-Length' in response.fields:\n            return 'length'\n        elif chunked_match:\n            return 'chunked'", 'C08-D1'),
    B('ignore-length-overrides-chunked', "        if self._ignore_length and read_strategy == 'length':", "        if self._ignore_length:", 'C08-D1'),
    B('chunked-pattern-prefix', "            r'chunked($|;)',", "            r'chunked',", 'C08-D1'),
    B('chunked-search', "        chunked_match = re.match(\n", "        chunked_match = re.search(\n", 'C08-D1'),
    B('chunked-test-on-content-encoding', "            response.fields.get('Transfer-Encoding', ''),\n            re.IGNORECASE",
      "            response.fields.get('Content-Encoding', ''),\n            re.IGNORECASE", 'C08-D1'),
    B('length-read-until-close', "            elif read_strategy == 'length':\n                yield from self._read_body_by_length(response, file)",
      "            elif read_strategy == 'length':\n                yield from self._read_body_until_close(response, file)", 'C08-D1'),
    B('field-names-case-sensitive', "        normalized_name = normalize_name(name, self._normalize_overrides)\n        self._map[normalized_name].append(value)",
      "        self._map[name].append(value)", 'C08-D1', NVF),
    # ------------------------------------------------------------------ D2 no-body rule
    B('head-and-status', "                or request.method.upper() == 'HEAD'", "                and request.method.upper() == 'HEAD'", 'C08-D2'),
    B('codes-without-304', "    [http.client.NO_CONTENT, http.client.NOT_MODIFIED]", "    [http.client.NO_CONTENT]", 'C08-D2'),
    B('codes-with-205', "    [http.client.NO_CONTENT, http.client.NOT_MODIFIED]", "    [http.client.NO_CONTENT, http.client.RESET_CONTENT, http.client.NOT_MODIFIED]", 'C08-D2'),
    B('status-code-str', "                    (groups[0], int(groups[1]), groups[2]),", "                    (groups[0], groups[1], groups[2]),", 'C08-D2', RQ),
    B('no-body-not-consulted', "        if not is_no_body(request, response):\n", "        if True:\n", 'C08-D2'),
    B('regress-no-body-returns-before-close-decision', "        if not is_no_body(request, response):\n", "        if is_no_body(request, response):\n            return\n\n        if True:\n", 'C08-D6'),
    B('head-test-dropped', "            and (\n                response.status_code in no_content_codes\n                or request.method.upper() == 'HEAD'\n            ):",
      "            and response.status_code in no_content_codes:", 'C08-D2'),
    # ------------------------------------------------------------------ D3 length reader
    B('decrement-by-request-size', "            bytes_left -= len(data)\n\n            if bytes_left < 0:", "            bytes_left -= self._read_size\n\n            if bytes_left < 0:", 'C08-D3'),
    B('short-read-no-raise', "        if bytes_left > 0:\n            raise NetworkError('Connection closed.')\n\n        content_data = self._flush_decompressor()\n\n        if file and content_data:",
      "        content_data = self._flush_decompressor()\n\n        if file and content_data:", 'C08-D3'),
    B('short-read-logged-only', "        if bytes_left > 0:\n            raise NetworkError('Connection closed.')\n\n        content_data = self._flush_decompressor()\n\n        if file and content_data:",
      "        if bytes_left > 0:\n            _logger.warning('Connection closed.')\n\n        content_data = self._flush_decompressor()\n\n        if file and content_data:", 'C08-D3'),
    B('overrun-no-close', "                _logger.warning(_('Content overrun.'))\n                self.close()\n", "                _logger.warning(_('Content overrun.'))\n", 'C08-D3'),
    B('overrun-no-slice', "                data = data[:bytes_left]\n\n", "", 'C08-D3'),
    B('overrun-slice-wrong-end', "                data = data[:bytes_left]\n", "                data = data[bytes_left:]\n", 'C08-D3'),
    B('length-handler-narrowed', "        except ValueError as error:\n            _logger.warning(__(\n                _('Invalid content length",
      "        except TypeError as error:\n            _logger.warning(__(\n                _('Invalid content length", 'C08-D3'),
    B('negative-length-accepted', "            if body_size < 0:\n                raise ValueError('Content length cannot be negative.')\n\n", "", 'C08-D3'),
    B('invalid-length-means-empty', "            yield from self._read_body_until_close(response, file)\n            return\n\n        bytes_left = body_size",
      "            body_size = 0\n\n        bytes_left = body_size", 'C08-D3'),
    B('length-loop-off-by-one', "        while bytes_left > 0:", "        while bytes_left > 1:", 'C08-D3'),
    B('length-eof-spins', "            if not data:\n                break\n\n            bytes_left -= len(data)", "            bytes_left -= len(data)", 'C08-D3'),
    # ------------------------------------------------------------------ D4 chunk reader
    B('chunk-negative-accepted', "        if chunk_size < 0:\n            raise ProtocolError('Chunk size cannot be negative.')\n\n", "", 'C08-D4', K),
    B('chunk-size-decimal', ".strip(), 16)", ".strip(), 10)", 'C08-D4', K),
    B('chunk-extension-not-split', "int(chunk_size_hex.split(b';', 1)[0].strip(), 16)", "int(chunk_size_hex.strip(), 16)", 'C08-D4', K),
    B('chunk-size-line-no-lf-check', "        if not chunk_size_hex.endswith(b'\\n'):\n            raise NetworkError('Connection closed.')\n\n        try:\n            chunk_size = int(",
      "        try:\n            chunk_size = int(", 'C08-D4', K),
    B('chunk-read-unbounded', "            data = yield from self._connection.read(size)", "            data = yield from self._connection.read(self._read_size)", 'C08-D4', K),
    B('chunk-decrement-by-size', "            self._bytes_left -= len(data)", "            self._bytes_left -= size", 'C08-D4', K),
    B('chunk-unparsable-is-zero', "        except ValueError as error:\n            raise ProtocolError(\n                'Invalid chunk size: {0}'.format(error)) from error\n\n        if chunk_size < 0:",
      "        except ValueError as error:\n            chunk_size = 0\n\n        if chunk_size < 0:", 'C08-D4', K),
    B('short-chunk-ends-message', "                    if raw:\n                        file.write(data)\n\n                    break\n",
      "                    if raw:\n                        file.write(data)\n\n                    if not data:\n                        return\n\n                    break\n", 'C08-D4'),
    B('trailer-not-read', "        trailer_data = yield from reader.read_trailer()\n", "        trailer_data = b'\\r\\n'\n", 'C08-D4'),
    B('trailer-only-when-raw', "        trailer_data = yield from reader.read_trailer()\n",
      "        trailer_data = b''\n        if raw:\n            trailer_data = yield from reader.read_trailer()\n", 'C08-D4'),
    B('chunk-loop-ends-on-wrong-value', "            if not chunk_size:\n                break", "            if not data:\n                break", 'C08-D4'),
    B('chunk-terminator-lenient', "        if len(newline_data) > 2:", "        if len(newline_data) > 4096:", 'C08-D4', K),
    B('trailer-single-line', "            if trailer_data in (b'\\r\\n', b'\\n'):\n                break\n", "            break\n", 'C08-D4', K),
    B('regress-trailer-strip-test', "            if trailer_data in (b'\\r\\n', b'\\n'):\n                break\n", "            if not trailer_data.strip():\n                break\n", 'C08-D4', K),
    B('regress-trailer-eof-check', "            if not trailer_data.endswith(b'\\n'):\n                raise NetworkError('Connection closed.')\n\n            trailer_data_list", "            trailer_data_list", 'C08-D4', K),
    B('header-strip-test', "            elif data in (b'\\r\\n', b'\\n'):\n                break", "            elif not data.strip():\n                break", 'C08-D5'),
    N('trailer-blank-test-equality', "            if trailer_data in (b'\\r\\n', b'\\n'):\n                break\n", "            if trailer_data == b'\\r\\n' or trailer_data == b'\\n':\n                break\n", K),
    N('setup-decompressor-table', "        if encoding == 'gzip':\n            self._decompressor = wpull.decompression.GzipDecompressor()\n        elif encoding == 'deflate':\n            self._decompressor = wpull.decompression.DeflateDecompressor()\n        else:\n            self._decompressor = None\n",
      "        decompressor_class = {\n            'gzip': wpull.decompression.GzipDecompressor,\n            'deflate': wpull.decompression.DeflateDecompressor,\n        }.get(encoding)\n\n        if decompressor_class:\n            self._decompressor = decompressor_class()\n        else:\n            self._decompressor = None\n"),
    # ------------------------------------------------------------------ D5 header block
    B('header-eof-ends-block', "            if not data.endswith(b'\\n'):\n                raise NetworkError('Connection closed.')\n            elif data in (b'\\r\\n', b'\\n'):\n                break",
      "            if not data.endswith(b'\\n') or data in (b'\\r\\n', b'\\n'):\n                break", 'C08-D5'),
    B('header-cap-removed', "            if bytes_read > 32768:\n                raise ProtocolError('Header too big.')\n\n", "", 'C08-D5'),
    B('header-cap-raised', "            if bytes_read > 32768:", "            if bytes_read > 65536:", 'C08-D5'),
    B('header-counts-lines', "            bytes_read += len(data)", "            bytes_read += 1", 'C08-D5'),
    B('empty-header-accepted', "        if not header_lines:\n            raise ProtocolError('No header received.')\n\n", "", 'C08-D5'),
    B('header-first-line-dropped', "        response.parse(b''.join(header_lines))", "        response.parse(b''.join(header_lines[1:]))", 'C08-D5'),
    # ------------------------------------------------------------------ D6 keep-alive
    B('should-close-inverted-1.0', "        return connection_field.replace('-', '') != 'keepalive'", "        return connection_field.replace('-', '') == 'keepalive'", 'C08-D6', UT),
    B('should-close-case-sensitive', "    connection_field = (connection_field or '').lower()", "    connection_field = (connection_field or '')", 'C08-D6', UT),
    B('close-needs-both', "        if not self._keep_alive or should_close:", "        if not self._keep_alive and should_close:", 'C08-D6'),
    B('until-close-stops-on-short-read', "            if not data:\n                break\n\n            self._data_event_dispatcher.notify_read(data)",
      "            if not data or len(data) < self._read_size:\n                break\n\n            self._data_event_dispatcher.notify_read(data)", 'C08-D6'),
    B('read-body-no-close-on-error', "    @asyncio.coroutine\n    @close_stream_on_error\n    def read_body(", "    @asyncio.coroutine\n    def read_body(", 'C08-D6'),
    B('timeout-swallowed', "            raise DurationTimeout(\n                'Did not finish reading after {} seconds.'\n                    .format(duration_timeout)\n            ) from error\n",
      "            _logger.debug('timeout')\n", 'C08-D6', CL),
    B('recycle-unfinished-alive', "        if not self.done():\n            super().abort()\n", "        if not self.done():\n", 'C08-D6', CL),
    B('complete-before-body', "        read_future = self._stream.read_body(", "        self._session_state = SessionState.response_received\n        read_future = self._stream.read_body(", 'C08-D6', CL,
      more=[(CL, "        self._session_state = SessionState.response_received\n\n        if original_offset is not None:", "        if original_offset is not None:")]),
    # ------------------------------------------------------------------ D7 who reads, and how
    B('length-read-to-eof', "            data = yield from self._connection.read(self._read_size)\n\n            if not data:\n                break\n\n            bytes_left -= len(data)",
      "            data = yield from self._connection.read()\n\n            if not data:\n                break\n\n            bytes_left -= len(data)", 'C08-D7'),
    B('chunk-readexactly', "            data = yield from self._connection.read(size)", "            data = yield from self._connection.reader.readexactly(size)", 'C08-D7', K),
    B('read-size-zero', "        self._read_size = 4096\n        self._decompressor = None", "        self._read_size = 0\n        self._decompressor = None", 'C08-D7'),
    B('connection-ignores-size', "                self.reader.read(amount),", "                self.reader.read(),", 'C08-D7', 'wpull/network/connection.py'),
    B('peek-in-read-body', "            read_strategy = self.get_read_strategy(response)\n",
      "            read_strategy = self.get_read_strategy(response)\n            yield from self._connection.readline()\n", 'C08-D7'),

    # ------------------------------------------------------------------ benign twins
    N('rename-counter', "bytes_left", "remaining", all_=True),
    N('loop-test-flipped', "        while bytes_left > 0:", "        while 0 < bytes_left:"),
    N('decrement-spelled-out', "            bytes_left -= len(data)\n\n            if bytes_left < 0:", "            bytes_left = bytes_left - len(data)\n\n            if bytes_left < 0:"),
    N('chunked-pattern-noncapturing', "            r'chunked($|;)',", "            r'chunked(?:;|$)',"),
    N('dispatch-reordered',
      "            if read_strategy == 'chunked':\n                yield from self._read_body_by_chunk(response, file, raw=raw)\n            elif read_strategy == 'length':\n                yield from self._read_body_by_length(response, file)\n            else:",
      "            if read_strategy == 'length':\n                yield from self._read_body_by_length(response, file)\n            elif read_strategy == 'chunked':\n                yield from self._read_body_by_chunk(response, file, raw=raw)\n            else:"),
    N('should-close-early-return', "    if http_version == 'HTTP/1.0':\n        return connection_field.replace('-', '') != 'keepalive'\n    else:\n        return connection_field == 'close'",
      "    if http_version != 'HTTP/1.0':\n        return connection_field == 'close'\n\n    return not connection_field.replace('-', '') == 'keepalive'", UT),
    N('no-body-early-return', "        return True\n    else:\n        return False", "        return True\n\n    return False"),
    N('chunk-negative-spelling', "        if chunk_size < 0:", "        if not chunk_size >= 0:", K),
    N('header-cap-spelling', "            if bytes_read > 32768:", "            if bytes_read >= 32769:"),
    N('overrun-close-first', "                data = data[:bytes_left]\n\n                _logger.warning(_('Content overrun.'))\n                self.close()",
      "                self.close()\n                _logger.warning(_('Content overrun.'))\n                data = data[:bytes_left]"),
    N('chunk-guard-flipped', "        if bytes_left > 0:\n            size = min(bytes_left, self._read_size)", "        if 0 < bytes_left:\n            size = min(self._read_size, bytes_left)", K),
    N('zero-chunk-spelling', "            if not chunk_size:\n                break", "            if chunk_size == 0:\n                break"),
    N('lf-test-spelling', "            if not data.endswith(b'\\n'):\n                raise NetworkError('Connection closed.')\n            elif",
      "            if data[-1:] != b'\\n':\n                raise NetworkError('Connection closed.')\n            elif"),
    N('logging-in-length-loop', "            bytes_left -= len(data)\n\n            if bytes_left < 0:", "            bytes_left -= len(data)\n            _logger.debug('read %d', len(data))\n\n            if bytes_left < 0:"),
    N('short-read-guard-nested', "        if bytes_left > 0:\n            raise NetworkError('Connection closed.')\n\n        content_data = self._flush_decompressor()\n\n        if file and content_data:",
      "        if not bytes_left <= 0:\n            _logger.debug('short body')\n            raise NetworkError('Connection closed.')\n\n        content_data = self._flush_decompressor()\n\n        if file and content_data:"),
    B('length-read-bounded-by-counter', "            data = yield from self._connection.read(self._read_size)\n\n            if not data:\n                break\n\n            bytes_left",
      "            data = yield from self._connection.read(min(bytes_left, self._read_size))\n\n            if not data:\n                break\n\n            bytes_left", 'C08-D3'),
    N('short-read-protocol-error', "        if bytes_left > 0:\n            raise NetworkError('Connection closed.')", "        if bytes_left > 0:\n            raise ProtocolError('Connection closed.')"),
    N('keep-alive-test-order', "        if not self._keep_alive or should_close:", "        if should_close or not self._keep_alive:"),
]

NVF = 'wpull/namevalue.py'
ENTRIES += [
    B('regress-header-splitlines', "        lines = split_lines(unfold_lines(string))\n", "        lines = unfold_lines(string).splitlines()\n", 'C08-D5', NVF),
    B('regress-unfold-splitlines', "    lines = split_lines(string)\n    line_buffer = io.StringIO()", "    lines = string.splitlines()\n    line_buffer = io.StringIO()", 'C08-D5', NVF),
]

HC = 'wpull/protocol/http/client.py'
_WF_OLD = "        read_future = self._stream.read_body(self._request, self._response, file=file, raw=raw)\n\n        try:\n            yield from asyncio.wait_for(read_future, timeout=duration_timeout)\n        except asyncio.TimeoutError as error:\n            raise DurationTimeout(\n                'Did not finish reading after {} seconds.'\n                    .format(duration_timeout)\n            ) from error\n"
_WF_WAIT = "        read_future = asyncio.ensure_future(\n            self._stream.read_body(self._request, self._response, file=file, raw=raw))\n\n        done, pending = yield from asyncio.wait(\n            [read_future], timeout=duration_timeout)\n\n        if pending:\n            read_future.cancel()\n            raise DurationTimeout(\n                'Did not finish reading after {} seconds.'\n                    .format(duration_timeout)\n            )\n"
ENTRIES += [
    {'id': 'C08/read-parked-in-wait', 'prop': 'C08', 'kind': 'break', 'expect': 'C08-D6', 'edits': [(HC, _WF_OLD, _WF_WAIT)]},
    {'id': 'C08/benign-read-wait-then-result', 'prop': 'C08', 'kind': 'benign', 'edits': [(HC, _WF_OLD, _WF_WAIT + "\n        read_future.result()\n")]},
    {'id': 'C04/read-parked-in-wait', 'prop': 'C04', 'kind': 'break', 'expect': 'C04-D2', 'edits': [(HC, _WF_OLD, _WF_WAIT)]},
]

CN = 'wpull/network/connection.py'
ENTRIES += [
    {'id': 'C08/read-armed-not-asked', 'prop': 'C08', 'kind': 'break', 'expect': 'C08-D6', 'edits': [(CN,
      "        data = yield from \\\n            self.run_network_operation(\n                self.reader.read(amount),\n                close_timeout=self._timeout,\n                name='Read')\n",
      "        with self._close_timer.with_timeout():\n            data = yield from \\\n                self.run_network_operation(\n                    self.reader.read(amount),\n                    name='Read')\n")]},
    {'id': 'C08/readline-kw-dropped', 'prop': 'C08', 'kind': 'break', 'expect': 'C08-D6', 'edits': [(CN,
      "                    self.reader.readline(),\n                    close_timeout=self._timeout,\n", "                    self.reader.readline(),\n")]},
    {'id': 'C08/benign-readline-single-arming', 'prop': 'C08', 'kind': 'benign', 'edits': [(CN,
      "        with self._close_timer.with_timeout():\n            data = yield from \\\n                self.run_network_operation(\n                    self.reader.readline(),\n                    close_timeout=self._timeout,\n                    name='Readline')\n",
      "        data = yield from \\\n            self.run_network_operation(\n                self.reader.readline(),\n                close_timeout=self._timeout,\n                name='Readline')\n")]},
]

PL = 'wpull/network/pool.py'
ENTRIES += [
    {'id': 'C08/eyeballs-close-primary', 'prop': 'C08', 'kind': 'break', 'expect': 'C08-D6', 'edits': [(PL,
      "        if self._active_connection:\n            self._active_connection.close()\n", "        if self._active_connection:\n            self._primary_connection.close()\n")]},
    {'id': 'C12/eyeballs-reset-secondary', 'prop': 'C12', 'kind': 'break', 'expect': 'C12-D7', 'edits': [(PL,
      "        if self._active_connection:\n            self._active_connection.reset()\n", "        if self._active_connection:\n            self._secondary_connection.reset()\n")]},
]

_INT_NEW = "        read_callback = functools.partial(self.event_dispatcher.notify, self.Event.response_data)\n        header_data = []\n        header_callback = header_data.append\n        stream.data_event_dispatcher.add_read_listener(header_callback)\n\n        while True:\n            del header_data[:]\n            self._response = response = yield from stream.read_response()\n\n            if not 100 <= response.status_code <= 199 \\\n                    or response.status_code == 101:\n                break\n\n            # An interim response (100 Continue, 103 Early Hints) precedes\n            # the response to this request; it is not that response and\n            # its bytes are not reported as part of it.\n            _logger.debug('Got interim response {0}.'.format(response))\n\n        stream.data_event_dispatcher.remove_read_listener(header_callback)\n\n        for data in header_data:\n            read_callback(data)\n\n        stream.data_event_dispatcher.add_read_listener(read_callback)\n        response.request = request\n"
_INT_OLD = "        read_callback = functools.partial(self.event_dispatcher.notify, self.Event.response_data)\n        stream.data_event_dispatcher.add_read_listener(read_callback)\n\n        self._response = response = yield from stream.read_response()\n        response.request = request\n"
_INT_LOOP_ATTACHED = "        read_callback = functools.partial(self.event_dispatcher.notify, self.Event.response_data)\n        stream.data_event_dispatcher.add_read_listener(read_callback)\n\n        while True:\n            self._response = response = yield from stream.read_response()\n\n            if not 100 <= response.status_code <= 199 \\\n                    or response.status_code == 101:\n                break\n\n        response.request = request\n"
_INT_NO_CLEAR = _INT_NEW.replace("            del header_data[:]\n", "")
ENTRIES += [
    {'id': 'C08/regress-interim-response-returned', 'prop': 'C08', 'kind': 'break', 'expect': 'C08-D2', 'edits': [(HC, _INT_NEW, _INT_OLD)]},
    {'id': 'C04/regress-interim-response-returned', 'prop': 'C04', 'kind': 'break', 'expect': 'C04-D7', 'edits': [(HC, _INT_NEW, _INT_OLD)]},
    {'id': 'C05/regress-interim-block-in-record', 'prop': 'C05', 'kind': 'break', 'expect': 'C05-D3', 'edits': [(HC, _INT_NEW, _INT_LOOP_ATTACHED)]},
    {'id': 'C04/interim-buffer-not-emptied', 'prop': 'C04', 'kind': 'break', 'expect': 'C04-D4', 'edits': [(HC, _INT_NEW, _INT_NO_CLEAR)]},
    {'id': 'C05/interim-buffer-not-emptied', 'prop': 'C05', 'kind': 'break', 'expect': 'C05-D3', 'edits': [(HC, _INT_NEW, _INT_NO_CLEAR)]},
    {'id': 'C04/benign-interim-buffer-clear-method', 'prop': 'C04', 'kind': 'benign', 'edits': [(HC, "            del header_data[:]\n", "            header_data.clear()\n")]},
    {'id': 'C05/benign-interim-buffer-clear-method', 'prop': 'C05', 'kind': 'benign', 'edits': [(HC, "            del header_data[:]\n", "            header_data.clear()\n")]},
]

_INT_BEGIN_EARLY = _INT_NEW.replace("        stream.data_event_dispatcher.remove_read_listener(header_callback)\n\n", "        stream.data_event_dispatcher.remove_read_listener(header_callback)\n        self.event_dispatcher.notify(self.Event.begin_response, response)\n\n")
ENTRIES += [
    {'id': 'C05/begin-response-before-replay', 'prop': 'C05', 'kind': 'break', 'expect': 'C05-D3', 'edits': [(HC, _INT_NEW, _INT_BEGIN_EARLY)]},
]
