"""Vet a change produced by an independent sub-agent and, if it is sound, store it under /verif/seeded/<id>/.

Usage: /venv/bin/python selftest/vet_seed.py <property> <dir with patch.diff demo.py README.md> <seed-id> [--keep]

Steps (all in a fresh scratch worktree of /repo's HEAD, removed afterwards):
  1. demo exits 0 on the clean tree
  2. patch applies; touched files still compile
  3. the pinned test suite still reports 111 passed
  4. demo exits non-zero with the patch
  5. every claimed check is run on the patched tree (WPULL_ROOT); the result is recorded
"""
import json
import os
import shutil
import subprocess
import sys
import tempfile

VERIF = os.path.dirname(os.path.dirname(os.path.abspath(__file__)))
TEST = ['/venv/bin/python', '-m', 'pytest', '-q', '-p', 'no:cacheprovider', '--timeout=900', '--continue-on-collection-errors']


def sh(cmd, cwd=None, env=None, timeout=1200):
    r = subprocess.run(cmd, cwd=cwd, env=env, capture_output=True, text=True, timeout=timeout)
    return r.returncode, (r.stdout + r.stderr)


def main():
    prop, src, sid = sys.argv[1], sys.argv[2], sys.argv[3]
    wt = tempfile.mkdtemp(prefix='wpull-vet-')
    os.rmdir(wt)
    rc, out = sh(['git', '-C', '/repo', 'worktree', 'add', '-q', '--detach', wt, 'HEAD'])
    if rc:
        print('worktree failed', out)
        return 2
    res = {'property': prop, 'seed': sid}
    try:
        # same depth as in the author's worktree (<worktree>/_out/<n>/demo.py): some demos locate the tree from __file__
        os.makedirs(os.path.join(wt, '_out', '1'))
        demo = os.path.join(wt, '_out', '1', 'demo.py')
        shutil.copy(os.path.join(src, 'demo.py'), demo)
        text = open(demo).read()
        # demos were written against the sub-agent's own worktree path
        for old in ('/tmp/wt-%s' % prop,):
            text = text.replace(old, wt)
        open(demo, 'w').write(text)
        rc, out = sh(['/venv/bin/python', demo], cwd=wt, timeout=600)
        res['demo_clean_exit'] = rc
        if rc != 0:
            print('demo fails on the clean tree:', out[-800:])
        rc, out = sh(['git', 'apply', os.path.abspath(os.path.join(src, 'patch.diff'))], cwd=wt)
        res['patch_applies'] = rc == 0
        if rc:
            print('patch does not apply:', out[-500:])
            print(json.dumps(res))
            return 1
        rc, out = sh(TEST, cwd=wt)
        tail = out.strip().splitlines()[-1] if out.strip() else ''
        res['tests'] = tail
        res['tests_ok'] = '111 passed' in tail
        rc, out = sh(['/venv/bin/python', demo], cwd=wt, timeout=600)
        res['demo_changed_exit'] = rc
        res['demo_changed_tail'] = out.strip()[-400:]
        with open(os.path.join(VERIF, 'MANIFEST.json')) as fh:
            props = [c['property_id'] for c in json.load(fh)['checks']]
        env = dict(os.environ)
        ev = tempfile.mkdtemp(prefix='wpull-vet-ev-')
        env.update({'WPULL_ROOT': wt, 'VERIF_EVIDENCE_DIR': ev, 'VERIF_OUT_DIR': os.path.join(ev, 'out')})
        checks = {}
        for p in props:
            rc, out = sh(['/venv/bin/python', '-m', 'sa.check', p], cwd=VERIF, env=env)
            rules = sorted({ln.split()[1] for ln in out.splitlines() if ln.startswith('FINDING ')})
            if rc:
                checks[p] = {'exit': rc, 'rules': rules}
        shutil.rmtree(ev, ignore_errors=True)
        res['checks_nonzero'] = checks
        res['detected_by_own_check'] = checks.get(prop, {}).get('exit') == 1
        valid = res['demo_clean_exit'] == 0 and res['tests_ok'] and res['demo_changed_exit'] != 0
        res['valid'] = valid
        print(json.dumps(res, indent=1))
        if valid:
            dst = os.path.join(VERIF, 'seeded', sid)
            os.makedirs(dst, exist_ok=True)
            if os.path.realpath(src) != os.path.realpath(dst):
                shutil.copy(os.path.join(src, 'patch.diff'), os.path.join(dst, 'patch.diff'))
                shutil.copy(os.path.join(src, 'demo.py'), os.path.join(dst, 'demo.py'))
                if os.path.exists(os.path.join(src, 'README.md')):
                    shutil.copy(os.path.join(src, 'README.md'), os.path.join(dst, 'README.md'))
            first = res['detected_by_own_check']
            keep = {}
            if os.path.exists(os.path.join(dst, 'meta.json')):
                with open(os.path.join(dst, 'meta.json')) as fh:
                    old_meta = json.load(fh)
                first = old_meta.get('first_pass_detected', first)
                # notes made by hand survive a re-vet
                keep = {k: v for k, v in old_meta.items() if k in ('rebased', 'demo_adapted', 'retired', 'note')}
            meta = {
                'property': prop,
                'first_pass_detected': first,
                'source': 'independent sub-agent given only the property text and its own scratch worktree',
                'needs_to_manifest': open(os.path.join(src, 'README.md')).read()[:1500] if os.path.exists(os.path.join(src, 'README.md')) else '',
                'what_i_ran': 'scratch worktree of /repo HEAD: demo on clean tree (exit %s); git apply patch.diff; baseline suite (%s); demo with patch (exit %s); every claimed check with WPULL_ROOT=<worktree>'
                              % (res['demo_clean_exit'], res['tests'], res['demo_changed_exit']),
                'detected': res['detected_by_own_check'],
                'expect_rule': (checks.get(prop, {}).get('rules') or [''])[0].replace('rule=', '') or None,
                'checks_reporting': checks,
            }
            meta.update(keep)
            with open(os.path.join(dst, 'meta.json'), 'w') as fh:
                json.dump(meta, fh, indent=1)
        return 0
    finally:
        sh(['git', '-C', '/repo', 'worktree', 'remove', '--force', wt])
        shutil.rmtree(wt, ignore_errors=True)


if __name__ == '__main__':
    sys.exit(main())
