CHECKS['C06'] = dict(
    technique='static analysis: who-may-write/open-mode lint on the archive path + CFG dominance and must-pass-through (journal before append, rollback shape, journal removal on all exits) + decision table of the start-up journal check',
    text='Decides, for every path of the current source, the structural clauses that make a failed append harmless: no truncating open of the archive, journal written and closed before the append, OSError handler truncating to the journalled size and re-raising, journal removed on every exit, start-up refusal. It does not decide the outcome at each kill instant (a property of executions).',
    note='Trusts Python ast, the CFG construction, and that I/O failures surface as OSError/IOError; the file system and gzip are not modelled.')
